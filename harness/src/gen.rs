// Case generator (DESIGN 4.7).  Every random choice derives from ONE splitmix64 state seeded with
// --seed, so a case file (and any disagreement found on it) is reproducible from (seed, tier).
// The generator never calls the crate under test: classes are its own knowledge of the characters
// it emits (Appendix D of DESIGN.md), used only to place paragraph and line boundaries and for the
// distribution statistics.
use std::collections::BTreeMap;
use std::io::Write;

pub struct Rng(u64);
impl Rng {
    pub fn new(seed: u64) -> Rng {
        Rng(seed.wrapping_mul(0x9E3779B97F4A7C15) ^ 0xD1B54A32D192ED03)
    }
    pub fn next(&mut self) -> u64 {
        self.0 = self.0.wrapping_add(0x9E3779B97F4A7C15);
        let mut z = self.0;
        z = (z ^ (z >> 30)).wrapping_mul(0xBF58476D1CE4E5B9);
        z = (z ^ (z >> 27)).wrapping_mul(0x94D049BB133111EB);
        z ^ (z >> 31)
    }
    pub fn below(&mut self, n: usize) -> usize {
        (self.next() % (n as u64)) as usize
    }
    pub fn pick<'a, T>(&mut self, v: &'a [T]) -> &'a T {
        &v[self.below(v.len())]
    }
    pub fn chance(&mut self, num: usize, den: usize) -> bool {
        self.below(den) < num
    }
}

// one generated character: a scalar value, or (UTF-16 only) a lone surrogate unit
#[derive(Clone, Copy, PartialEq, Debug)]
pub enum Item {
    Ch(u32),
    Lone(u16),
}

fn len8(cp: u32) -> usize {
    if cp < 0x80 { 1 } else if cp < 0x800 { 2 } else if cp < 0x10000 { 3 } else { 4 }
}
fn len16(cp: u32) -> usize {
    if cp < 0x10000 { 1 } else { 2 }
}

// representatives per class (class name, code points of different encoded lengths)
const REPS: &[(&str, &[u32])] = &[
    ("L", &[0x61, 0xAA, 0x905, 0x10000, 0x200E]),
    ("R", &[0x5D0, 0x800, 0x10800, 0x200F]),
    ("AL", &[0x627, 0xFB50, 0x1EE00, 0x61C]),
    ("EN", &[0x31, 0xB2, 0x2070, 0x1D7CE]),
    ("ES", &[0x2B, 0x207A, 0x2D]),
    ("ET", &[0x24, 0xA2, 0x20AC]),
    ("AN", &[0x661, 0x10E60, 0x600]),
    ("CS", &[0x2C, 0xA0, 0x2044]),
    ("NSM", &[0x300, 0x20D0, 0xE0100]),
    ("BN", &[0x1, 0xAD, 0x200B, 0xE0001]),
    ("B", &[0xA, 0x85, 0x2029, 0xD, 0x1C]),
    ("S", &[0x9, 0x1F, 0xB]),
    ("WS", &[0x20, 0x2000, 0xC]),
    ("ON", &[0x21, 0xA1, 0x2010, 0x1F300]),
    ("LRE", &[0x202A]),
    ("RLE", &[0x202B]),
    ("PDF", &[0x202C]),
    ("LRO", &[0x202D]),
    ("RLO", &[0x202E]),
    ("LRI", &[0x2066]),
    ("RLI", &[0x2067]),
    ("FSI", &[0x2068]),
    ("PDI", &[0x2069]),
    // brackets (class ON): ( ) [ ] and the canonically equivalent pairs
    ("(", &[0x28, 0xFF08]),
    (")", &[0x29, 0xFF09]),
    ("[", &[0x5B, 0x2329, 0x3008, 0xFF3B]),
    ("]", &[0x5D, 0x232A, 0x3009, 0xFF3D]),
];
const B_CHARS: &[u32] = &[0xA, 0xD, 0x1C, 0x1D, 0x1E, 0x85, 0x2029];

fn sym(name: &str) -> usize {
    REPS.iter().position(|x| x.0 == name).unwrap()
}
fn rep(s: usize, k: usize) -> u32 {
    let r = REPS[s].1;
    r[k % r.len()]
}

pub struct Case {
    pub enc: u8,
    pub dir: char,
    pub items: Vec<Item>,
    pub ds: Option<Vec<(u32, &'static str, Option<(u32, bool)>)>>,
    pub fam: String,
    pub max_line_chars: usize,
}

struct Out<'a> {
    w: std::io::BufWriter<std::fs::File>,
    n: usize,
    stats: BTreeMap<String, usize>,
    rng: &'a mut Rng,
}

fn units(enc: u8, it: &Item) -> usize {
    match it {
        Item::Ch(c) => if enc == 8 { len8(*c) } else { len16(*c) },
        Item::Lone(_) => 1,
    }
}
fn is_b(ds: &Option<Vec<(u32, &'static str, Option<(u32, bool)>)>>, it: &Item) -> bool {
    match it {
        Item::Lone(_) => false,
        Item::Ch(c) => match ds {
            None => B_CHARS.contains(c),
            Some(t) => t.iter().any(|e| e.0 == *c && e.1 == "B"),
        },
    }
}
fn text_field(enc: u8, items: &[Item]) -> String {
    if items.is_empty() {
        return "-".into();
    }
    let mut v = Vec::new();
    for it in items {
        match it {
            Item::Ch(c) => {
                if enc == 8 || *c < 0x10000 {
                    v.push(format!("{:x}", c));
                } else {
                    let x = c - 0x10000;
                    v.push(format!("{:x}", 0xD800 + (x >> 10)));
                    v.push(format!("{:x}", 0xDC00 + (x & 0x3FF)));
                }
            }
            Item::Lone(u) => {
                assert!(enc == 16);
                v.push(format!("{:x}", u));
            }
        }
    }
    v.join(",")
}
// lone surrogates that happen to sit next to each other would decode as a pair; normalise the item
// list so that it always equals the lossy decoding of the units it produces
fn normalise16(items: &[Item]) -> Vec<Item> {
    let mut out: Vec<Item> = Vec::new();
    for it in items {
        if let (Some(Item::Lone(h)), Item::Lone(l)) = (out.last().copied(), it) {
            if (0xD800..0xDC00).contains(&h) && (0xDC00..0xE000).contains(l) {
                out.pop();
                out.push(Item::Ch(0x10000 + (((h as u32) - 0xD800) << 10) + ((*l as u32) - 0xDC00)));
                continue;
            }
        }
        out.push(*it);
    }
    out
}

impl<'a> Out<'a> {
    // line ranges: per paragraph, every (start,end) on character boundaries when the paragraph is
    // short, otherwise a handful biased towards both ends
    // line ranges as pairs of CHARACTER indices: per paragraph, every (start,end) when the paragraph
    // is short, otherwise a handful biased towards both ends
    fn lines_for(&mut self, c: &Case) -> Vec<(usize, usize)> {
        let mut res = Vec::new();
        let mut bounds: Vec<usize> = vec![0];
        let mut paras: Vec<Vec<usize>> = Vec::new();
        for (i, it) in c.items.iter().enumerate() {
            bounds.push(i + 1);
            if is_b(&c.ds, it) {
                paras.push(std::mem::replace(&mut bounds, vec![i + 1]));
            }
        }
        if bounds.len() > 1 {
            paras.push(bounds);
        }
        for p in paras {
            let k = p.len() - 1; // characters in the paragraph
            if c.max_line_chars == usize::MAX {
                // no lines for this family
            } else if k <= c.max_line_chars {
                for i in 0..k {
                    for j in i + 1..=k {
                        res.push((p[i], p[j]));
                    }
                }
            } else {
                res.push((p[0], p[k]));
                for _ in 0..(if k > 60 { 2 } else { 6 }) {
                    let i = if self.rng.chance(1, 3) { 0 } else { self.rng.below(k) };
                    let j = if self.rng.chance(1, 3) { k } else { i + 1 + self.rng.below(k - i) };
                    if !res.contains(&(p[i], p[j])) {
                        res.push((p[i], p[j]));
                    }
                }
            }
        }
        res
    }
    fn emit_with(&mut self, c: &Case, tag: &str, clines: Option<Vec<(usize, usize)>>) -> (usize, Vec<(usize, usize)>) {
        let items = if c.enc == 16 { normalise16(&c.items) } else { c.items.clone() };
        let c = Case { enc: c.enc, dir: c.dir, items, ds: c.ds.clone(), fam: c.fam.clone(), max_line_chars: c.max_line_chars };
        let clines = match clines { Some(l) => l, None => self.lines_for(&c) };
        let mut starts = vec![0usize];
        for it in &c.items {
            let l = *starts.last().unwrap();
            starts.push(l + units(c.enc, it));
        }
        let lines: Vec<(usize, usize)> = clines.iter().map(|&(a, b)| (starts[a], starts[b])).collect();
        let id = self.n;
        self.n += 1;
        let ds = match &c.ds {
            None => "-".to_string(),
            Some(t) => t.iter().map(|(cp, k, b)| format!("{:x}:{}:{}", cp, k, match b { None => "-".to_string(), Some((key, open)) => format!("{}{:x}", if *open { "o" } else { "c" }, key) })).collect::<Vec<_>>().join(","),
        };
        let ls = if lines.is_empty() { "-".to_string() } else { lines.iter().map(|l| format!("{}-{}", l.0, l.1)).collect::<Vec<_>>().join(",") };
        writeln!(self.w, "T\t{}\t{}\t{}\t{}\t{}\t{}\t{}{}", id, c.enc, c.dir, text_field(c.enc, &c.items), ds, ls, c.fam, tag).unwrap();
        *self.stats.entry(format!("fam.{}", c.fam)).or_insert(0) += 1;
        *self.stats.entry(format!("enc.{}", c.enc)).or_insert(0) += 1;
        *self.stats.entry(format!("dir.{}", c.dir)).or_insert(0) += 1;
        *self.stats.entry(format!("len.{}", match c.items.len() { 0 => "0".to_string(), 1..=3 => "1-3".to_string(), 4..=12 => "4-12".to_string(), 13..=40 => "13-40".to_string(), _ => "41+".to_string() })).or_insert(0) += 1;
        *self.stats.entry("lines".to_string()).or_insert(0) += lines.len();
        if c.items.iter().any(|i| matches!(i, Item::Lone(_))) {
            *self.stats.entry("illformed16".to_string()).or_insert(0) += 1;
        }
        (id, clines)
    }
    // emit; a UTF-16 case is followed by its UTF-8 twin (lone surrogates read as U+FFFD) for C09
    fn emit(&mut self, c: &Case) {
        if c.enc == 16 {
            let (id, clines) = self.emit_with(c, "", None);
            let items: Vec<Item> = normalise16(&c.items).iter().map(|it| match it { Item::Lone(_) => Item::Ch(0xFFFD), x => *x }).collect();
            let twin = Case { enc: 8, dir: c.dir, items, ds: c.ds.clone(), fam: c.fam.clone(), max_line_chars: c.max_line_chars };
            self.emit_with(&twin, &format!(" twin:{}", id), Some(clines));
        } else {
            self.emit_with(c, "", None);
        }
    }
    /// like [emit] but with explicit lines (pairs of character indices)
    fn emit_lines(&mut self, c: &Case, clines: Vec<(usize, usize)>) {
        if c.enc == 16 {
            let (id, clines) = self.emit_with(c, "", Some(clines));
            let items: Vec<Item> = normalise16(&c.items).iter().map(|it| match it { Item::Lone(_) => Item::Ch(0xFFFD), x => *x }).collect();
            let twin = Case { enc: 8, dir: c.dir, items, ds: c.ds.clone(), fam: c.fam.clone(), max_line_chars: c.max_line_chars };
            self.emit_with(&twin, &format!(" twin:{}", id), Some(clines));
        } else {
            self.emit_with(c, "", Some(clines));
        }
    }
    fn raw(&mut self, line: String, key: &str) {
        writeln!(self.w, "{}", line).unwrap();
        *self.stats.entry(key.to_string()).or_insert(0) += 1;
    }
}

fn dir_of(k: usize) -> char {
    ['a', '0', '1'][k % 3]
}

fn sym_seq_case(seq: &[usize], salt: usize, enc: u8, dir: char, fam: &str) -> Case {
    let items = seq.iter().enumerate().map(|(i, &s)| Item::Ch(rep(s, i + salt))).collect();
    Case { enc, dir, items, ds: None, fam: fam.to_string(), max_line_chars: 6 }
}

// weighted pools for the structured-random family
fn pools() -> Vec<Vec<usize>> {
    let p = |names: &[&str]| names.iter().map(|n| sym(n)).collect::<Vec<usize>>();
    vec![
        p(&["EN", "EN", "ES", "ET", "ET", "AN", "CS", "CS", "NSM", "L", "R", "AL", "AL", "BN", "ON", "WS"]),
        p(&["LRI", "RLI", "FSI", "PDI", "PDI", "LRE", "RLE", "LRO", "RLO", "PDF", "PDF", "L", "R", "AL", "EN", "ON", "WS", "BN", "NSM"]),
        p(&["(", ")", "[", "]", "(", ")", "L", "R", "AL", "EN", "AN", "NSM", "ON", "BN", "LRI", "RLI", "PDI", "WS"]),
        p(&["WS", "WS", "S", "B", "BN", "LRI", "PDI", "L", "R", "EN", "RLE", "PDF", "FSI", "ON", "NSM", "ET"]),
        (0..REPS.len()).collect(),
        p(&["L", "R", "L", "R", "AL", "EN", "AN", "WS", "ON", "(", ")", "NSM", "BN", "RLI", "LRI", "PDI", "ET", "ES", "CS"]),
    ]
}

pub fn main(args: &[String]) {
    let mut seed = 1u64;
    let mut tier = "quick".to_string();
    let mut out = "cases.txt".to_string();
    let mut i = 0;
    while i < args.len() {
        match args[i].as_str() {
            "--seed" => { seed = args[i + 1].parse().unwrap(); i += 2; }
            "--tier" => { tier = args[i + 1].clone(); i += 2; }
            "--out" => { out = args[i + 1].clone(); i += 2; }
            x => panic!("unknown arg {}", x),
        }
    }
    let thorough = tier == "thorough";
    let mut rng = Rng::new(seed);
    let f = std::fs::File::create(&out).unwrap();
    let mut o = Out { w: std::io::BufWriter::new(f), n: 1_000_000, stats: BTreeMap::new(), rng: &mut rng };
    let nsym = REPS.len();

    // ---- G1: exhaustive short class sequences -------------------------------------------------
    o.emit(&Case { enc: 8, dir: 'a', items: vec![], ds: None, fam: "G1".into(), max_line_chars: 6 });
    o.emit(&Case { enc: 16, dir: '1', items: vec![], ds: None, fam: "G1".into(), max_line_chars: 6 });
    for a in 0..nsym {
        for d in 0..3 {
            for salt in 0..REPS[a].1.len() {
                o.emit(&sym_seq_case(&[a], salt, if (salt + d) % 2 == 0 { 8 } else { 16 }, dir_of(d), "G1"));
            }
        }
    }
    for a in 0..nsym {
        for b in 0..nsym {
            for d in 0..3 {
                let salt = o.rng.below(5);
                let enc = if o.rng.chance(1, 4) { 16 } else { 8 };
                o.emit(&sym_seq_case(&[a, b], salt, enc, dir_of(d), "G1"));
            }
        }
    }
    if thorough {
        for a in 0..nsym { for b in 0..nsym { for c in 0..nsym { for d in 0..3 {
            let salt = o.rng.below(5);
            let enc = if o.rng.chance(1, 5) { 16 } else { 8 };
            o.emit(&sym_seq_case(&[a, b, c], salt, enc, dir_of(d), "G1"));
        }}}}
        for _ in 0..40000 {
            let s: Vec<usize> = (0..4).map(|_| o.rng.below(nsym)).collect();
            let (salt, d) = (o.rng.below(5), o.rng.below(3));
            let enc = if o.rng.chance(1, 5) { 16 } else { 8 };
            o.emit(&sym_seq_case(&s, salt, enc, dir_of(d), "G1"));
        }
    } else {
        for _ in 0..5000 {
            let s: Vec<usize> = (0..3).map(|_| o.rng.below(nsym)).collect();
            let (salt, d) = (o.rng.below(5), o.rng.below(3));
            let enc = if o.rng.chance(1, 5) { 16 } else { 8 };
            o.emit(&sym_seq_case(&s, salt, enc, dir_of(d), "G1"));
        }
    }

    // ---- G1w/G1n/G1i: exhaustive sequences over FOCUSED alphabets (rule interactions need 4-5 characters:
    // EN ET CS EN, strong ( x ) strong, nested isolates ...), characters rotated over 1..4-unit representatives
    {
        let p = |names: &[&str]| names.iter().map(|n| sym(n)).collect::<Vec<usize>>();
        let weak = p(&["L", "R", "AL", "EN", "AN", "ET", "ES", "CS", "NSM", "BN"]);
        let neut = p(&["L", "R", "EN", "(", ")", "ON", "NSM", "WS"]);
        let iso = p(&["L", "R", "LRI", "RLI", "FSI", "PDI", "RLE", "PDF", "("]);
        let brk5 = p(&["L", "R", "(", ")", "["]);
        let fam_exh = |o: &mut Out, alpha: &Vec<usize>, len: usize, tag: &str, dirs: usize| {
            let n = alpha.len();
            let total = n.pow(len as u32);
            for code in 0..total {
                let mut c = code;
                let mut seq = Vec::with_capacity(len);
                for _ in 0..len { seq.push(alpha[c % n]); c /= n; }
                for d in 0..dirs {
                    let salt = o.rng.below(5);
                    let enc = if o.rng.chance(1, 4) { 16 } else { 8 };
                    // with two directions: forced LTR and forced RTL (auto is covered by the strong characters)
                    let dir = if dirs == 2 { dir_of(d + 1) } else { dir_of(d) };
                    let mut cs = sym_seq_case(&seq, salt, enc, dir, tag);
                    cs.max_line_chars = 3;
                    o.emit(&cs);
                }
            }
        };
        fam_exh(&mut o, &weak, 4, "G1w", 2);
        fam_exh(&mut o, &neut, 4, "G1n", 2);
        fam_exh(&mut o, &iso, 4, "G1i", 1);
        fam_exh(&mut o, &brk5, 5, "G1b", 1);
        if thorough {
            fam_exh(&mut o, &weak, 5, "G1w", 1);
            fam_exh(&mut o, &neut, 5, "G1n", 2);
            fam_exh(&mut o, &iso, 5, "G1i", 1);
        }
    }

    // ---- G2: structured random -------------------------------------------------------------------
    let pools = pools();
    let n2 = if thorough { 110000 } else { 9000 };
    for _ in 0..n2 {
        let pool = &pools[o.rng.below(pools.len())];
        let maxlen = if thorough { if o.rng.chance(1, 4) { 40 } else { 14 } } else { 12 };
        let len = 1 + o.rng.below(maxlen);
        let mut items = Vec::new();
        for k in 0..len {
            let s = if o.rng.chance(1, 12) { o.rng.below(nsym) } else { *o.rng.pick(pool) };
            let salt = o.rng.below(6);
            items.push(Item::Ch(rep(s, k + salt)));
        }
        let enc = if o.rng.chance(1, 4) { 16 } else { 8 };
        if enc == 16 && o.rng.chance(1, 6) {
            let p = o.rng.below(items.len() + 1);
            items.insert(p, Item::Lone(*o.rng.pick(&[0xD800u16, 0xDBFF, 0xDC00, 0xDFFF, 0xD802])));
        }
        let d = o.rng.below(3);
        o.emit(&Case { enc, dir: dir_of(d), items, ds: None, fam: "G2".into(), max_line_chars: 5 });
    }

    // ---- G3: deep nesting and many pending brackets ----------------------------------------------
    let n3 = if thorough { 1200 } else { 96 };
    for k in 0..n3 {
        let mut items = Vec::new();
        let inits = ["LRE", "RLE", "LRO", "RLO", "LRI", "RLI", "FSI"];
        if k % 3 != 2 {
            // explicit nesting around the 125 limit
            let depth = if thorough { 60 + o.rng.below(340) } else { 118 + o.rng.below(20) };
            let mode = o.rng.below(4);
            for j in 0..depth {
                let s = match mode {
                    0 => inits[j % 2],            // alternating LRE/RLE: fastest climb
                    1 => inits[4 + (j % 2)],      // alternating LRI/RLI
                    _ => *o.rng.pick(&inits),
                };
                items.push(Item::Ch(rep(sym(s), 0)));
                if o.rng.chance(1, 10) {
                    items.push(Item::Ch(rep(o.rng.below(14), j)));
                }
            }
            let inner = 1 + o.rng.below(4);
            for j in 0..inner {
                items.push(Item::Ch(rep(*o.rng.pick(&[sym("L"), sym("R"), sym("EN"), sym("AL"), sym("ON"), sym("WS"), sym("("), sym(")")]), j)));
            }
            let closes = o.rng.below(depth + 10);
            for j in 0..closes {
                let s = if o.rng.chance(1, 2) { "PDF" } else { "PDI" };
                items.push(Item::Ch(rep(sym(s), 0)));
                if o.rng.chance(1, 6) {
                    items.push(Item::Ch(rep(*o.rng.pick(&[sym("L"), sym("R"), sym("EN"), sym("WS"), sym("ON")]), j)));
                }
            }
        } else {
            // 55..130 pending opening brackets, spread over one or several level runs
            let nb = if thorough { 40 + o.rng.below(100) } else { 58 + o.rng.below(12) };
            items.push(Item::Ch(rep(*o.rng.pick(&[sym("L"), sym("R"), sym("AL")]), k)));
            for j in 0..nb {
                items.push(Item::Ch(rep(sym(if o.rng.chance(1, 3) { "[" } else { "(" }), 0)));
                if o.rng.chance(1, 25) {
                    items.push(Item::Ch(0x2066 + o.rng.below(2) as u32));
                    items.push(Item::Ch(rep(sym("L"), j)));
                    items.push(Item::Ch(0x2069));
                }
                if o.rng.chance(1, 30) {
                    items.push(Item::Ch(rep(*o.rng.pick(&[sym("L"), sym("R"), sym("EN")]), j)));
                }
            }
            items.push(Item::Ch(0x2066));
            items.push(Item::Ch(rep(sym("L"), 1)));
            items.push(Item::Ch(0x2069));
            items.push(Item::Ch(rep(*o.rng.pick(&[sym("L"), sym("R")]), k)));
            let nc = o.rng.below(nb + 3);
            for j in 0..nc {
                items.push(Item::Ch(rep(sym(if o.rng.chance(1, 3) { "]" } else { ")" }), 0)));
                if o.rng.chance(1, 20) {
                    items.push(Item::Ch(rep(*o.rng.pick(&[sym("L"), sym("R")]), j)));
                }
            }
            items.push(Item::Ch(rep(sym("L"), 0)));
        }
        let d = o.rng.below(3);
        let enc = if o.rng.chance(1, 5) { 16 } else { 8 };
        o.emit(&Case { enc, dir: dir_of(d), items, ds: None, fam: "G3".into(), max_line_chars: 0 });
    }

    // ---- G3b: exhaustive short programs AT the limits -------------------------------------------
    // prefix climbing to explicit depth 124/125 (embeddings or isolates), then every program of
    // length <= 4 over {LRI, RLE, LRO, PDI, PDF, RLI, FSI}, a marker letter after each step so
    // that every intermediate state is observable, then a closing tail
    {
        let steps: [u32; 7] = [0x2066, 0x202B, 0x202D, 0x2069, 0x202C, 0x2067, 0x2068];
        let plen = 4;
        let mut progs: Vec<Vec<usize>> = vec![vec![]];
        let mut all: Vec<Vec<usize>> = Vec::new();
        for _ in 0..plen {
            let mut nxt = Vec::new();
            for p in &progs { for s in 0..steps.len() { let mut t = p.clone(); t.push(s); nxt.push(t); } }
            all.extend(nxt.iter().cloned());
            progs = nxt;
        }
        for (pi, prog) in all.iter().enumerate() {
            // quick tier: full length-4 space with one prefix each (rotating), all shorter ones with every prefix
            for pf in 0..8usize {
                // quick tier: every prefix for programs of length <= 2, two prefixes for length 3, one prefix for a quarter of length 4
                // (thorough: every prefix for length <= 3, four of the eight for length 4 — these 130-character cases are the costliest of the run)
                if thorough && prog.len() == plen && pf % 2 != pi % 2 { continue; }
                if !thorough && prog.len() == plen && (pf != pi % 8 || (pi / 8) % 4 != 0) { continue; }
                if !thorough && prog.len() == plen - 1 && pf % 4 != pi % 4 { continue; }
                let mut items = Vec::new();
                // prefixes 0-3: 125 / 124 levels by embeddings (0, 1) or isolates (2, 3); 4, 5: 123 levels;
                // 6, 7: embeddings then ONE isolate initiator of the other kind on top (mixed stacks: 61 x RLE, LRI = level 123 ...)
                let depth = match pf { 0 | 2 => 125, 1 | 3 => 124, 4 | 5 => 123, 6 => 122, _ => 121 };
                for j in 0..depth {
                    let c = if pf < 2 || pf == 4 || pf >= 6 { if j % 2 == 0 { 0x202B } else { 0x202A } } else { if j % 2 == 0 { 0x2067 } else { 0x2066 } };
                    items.push(Item::Ch(c));
                }
                if pf == 6 { items.push(Item::Ch(0x2066)); }
                if pf == 7 { items.push(Item::Ch(0x2067)); items.push(Item::Ch(0x2066)); }
                items.push(Item::Ch(0x61));
                for (k, &s) in prog.iter().enumerate() {
                    items.push(Item::Ch(steps[s]));
                    items.push(Item::Ch(if (k + pi) % 3 == 0 { 0x5D0 } else { 0x62 + k as u32 }));
                }
                for c in [0x202C, 0x78, 0x2069, 0x79, 0x202C, 0x7A] { items.push(Item::Ch(c)); }
                let d = (pi + pf) % 3;
                o.emit(&Case { enc: 8, dir: dir_of(d), items, ds: None, fam: "G3".into(), max_line_chars: usize::MAX });
            }
        }
        // 62/63 pending opening brackets, then every program of length <= 3 over bracket/isolate steps
        let bsteps: [&[u32]; 5] = [&[0x28], &[0x29], &[0x2066, 0x61, 0x2069], &[0x5D0], &[0x5B]];
        let mut progs: Vec<Vec<usize>> = vec![vec![]];
        let mut all: Vec<Vec<usize>> = Vec::new();
        for _ in 0..3 {
            let mut nxt = Vec::new();
            for p in &progs { for s in 0..bsteps.len() { let mut t = p.clone(); t.push(s); nxt.push(t); } }
            all.extend(nxt.iter().cloned());
            progs = nxt;
        }
        for (pi, prog) in all.iter().enumerate() {
            for nb in [62usize, 63] {
                let mut items = vec![Item::Ch(if pi % 2 == 0 { 0x5D0 } else { 0x61 })];
                for _ in 0..nb { items.push(Item::Ch(0x28)); }
                for &s in prog { for &c in bsteps[s] { items.push(Item::Ch(c)); } }
                items.push(Item::Ch(0x5D0));
                for _ in 0..3 { items.push(Item::Ch(0x29)); }
                items.push(Item::Ch(0x61));
                o.emit(&Case { enc: 8, dir: dir_of(pi + nb), items, ds: None, fam: "G3".into(), max_line_chars: usize::MAX });
            }
        }
    }

    // ---- G3c: deep isolate nesting for P2/P3 (paragraph level, get_base_direction) -------------------
    // d initiators, then d-1 / d / d-2 PDIs, a strong character, a PDI, a strong character of the
    // other direction: the first strong character outside all isolates decides, at any depth
    for (n, &d) in [1usize, 2, 60, 124, 125, 126, 127, 128, 129, 130, 200, 255, 256, 257, 300].iter().enumerate() {
        // (closing none or only a few leaves the paragraph END inside 60 .. 300 open isolates)
        for (m, closes) in [d.saturating_sub(1), d, d.saturating_sub(2), d + 1, 0, 3.min(d)].iter().enumerate() {
            for v in 0..3usize {
                let mut items = Vec::new();
                for j in 0..d { items.push(Item::Ch([0x2066u32, 0x2067, 0x2068][(j + v) % 3])); }
                for _ in 0..*closes { items.push(Item::Ch(0x2069)); }
                items.push(Item::Ch(if (n + m + v) % 2 == 0 { 0x61 } else { 0x5D0 }));
                items.push(Item::Ch(0x2069));
                items.push(Item::Ch(if (n + m + v) % 2 == 0 { 0x5D0 } else { 0x61 }));
                if v == 2 { items.push(Item::Ch(0xA)); items.push(Item::Ch(0x627)); }
                let enc = if (n + m) % 4 == 0 { 16 } else { 8 };
                o.emit(&Case { enc, dir: 'a', items: items.clone(), ds: None, fam: "G3".into(), max_line_chars: usize::MAX });
                // the same paragraph followed by a second one that starts with isolate bookkeeping of its own:
                // nothing of the first paragraph's (possibly overflowing) isolate state may reach it
                if v < 2 && d >= 60 && d <= 130 {
                    for (t, tail) in [&[0x2068u32, 0x627][..], &[0x2066, 0x2069, 0x5D0], &[0x2069, 0x2068, 0x61, 0x2069, 0x5D0], &[0x2067, 0x2066, 0x2069, 0x2069, 0x627]].iter().enumerate() {
                        if m < 4 && (t + m + v) % 2 == 1 { continue; }
                        let mut it2 = items.clone();
                        it2.push(Item::Ch(B_CHARS[(n + t) % B_CHARS.len()]));
                        for &c in *tail { it2.push(Item::Ch(c)); }
                        o.emit(&Case { enc, dir: dir_of(t + v), items: it2, ds: None, fam: "G3".into(), max_line_chars: usize::MAX });
                    }
                }
            }
        }
    }

    // ---- G4: UTF-16 arrangements ------------------------------------------------------------------
    let a16: Vec<Item> = vec![Item::Ch(0x61), Item::Ch(0x5D0), Item::Lone(0xD800), Item::Lone(0xDC00), Item::Ch(0x200B), Item::Ch(0x9), Item::Ch(0x202B), Item::Ch(0x202C), Item::Ch(0x10800), Item::Ch(0x20)];
    let max4 = if thorough { 4 } else { 3 };
    let mut seqs: Vec<Vec<usize>> = vec![vec![]];
    for _l in 1..=max4 {
        let mut nxt = Vec::new();
        for s in &seqs {
            for a in 0..a16.len() {
                let mut t = s.clone();
                t.push(a);
                nxt.push(t);
            }
        }
        for s in &nxt {
            let d = o.rng.below(3);
            o.emit(&Case { enc: 16, dir: dir_of(d), items: s.iter().map(|&a| a16[a]).collect(), ds: None, fam: "G4".into(), max_line_chars: 4 });
        }
        seqs = nxt;
    }
    let n4 = if thorough { 15000 } else { 1500 };
    for _ in 0..n4 {
        let len = 2 + o.rng.below(9);
        let mut items = Vec::new();
        for k in 0..len {
            if o.rng.chance(1, 5) {
                items.push(Item::Lone(*o.rng.pick(&[0xD800u16, 0xDBFF, 0xDC00, 0xDFFF, 0xD802, 0xDC01])));
            } else if o.rng.chance(1, 3) {
                // supplementary character of some class
                let s = *o.rng.pick(&[sym("L"), sym("R"), sym("AL"), sym("EN"), sym("AN"), sym("NSM"), sym("BN"), sym("ON")]);
                let c = *REPS[s].1.iter().find(|c| **c >= 0x10000).unwrap_or(&REPS[s].1[0]);
                items.push(Item::Ch(c));
            } else {
                items.push(Item::Ch(rep(o.rng.below(nsym), k)));
            }
        }
        let d = o.rng.below(3);
        o.emit(&Case { enc: 16, dir: dir_of(d), items, ds: None, fam: "G4".into(), max_line_chars: 4 });
    }

    // ---- G5: adversarial data sources ------------------------------------------------------------
    let n5 = if thorough { 25000 } else { 2500 };
    let plain_classes = ["L", "R", "AL", "EN", "ES", "ET", "AN", "CS", "NSM", "BN", "B", "S", "WS", "ON", "ON", "ON", "L", "R"];
    let alphabet: Vec<u32> = vec![0x61, 0x62, 0x31, 0x2B, 0x24, 0x2C, 0x21, 0x28, 0x29, 0x5B, 0x5D, 0x20, 0x9, 0xA, 0x1,
        0xAA, 0x5D0, 0x627, 0x661, 0x300, 0xAD, 0x85, 0xA0,
        0x905, 0x800, 0xFB50, 0x2070, 0x20AC, 0x20D0, 0x200B, 0x2029, 0x2000, 0x2010, 0x3008, 0x3009,
        0x10000, 0x10800, 0x1EE00, 0x1D7CE, 0x10E60, 0xE0100, 0xE0001, 0x1F300];
    let explicit: Vec<(u32, &'static str)> = vec![(0x202A, "LRE"), (0x202B, "RLE"), (0x202C, "PDF"), (0x202D, "LRO"), (0x202E, "RLO"), (0x2066, "LRI"), (0x2067, "RLI"), (0x2068, "FSI"), (0x2069, "PDI")];
    for _ in 0..n5 {
        let mut table: Vec<(u32, &'static str, Option<(u32, bool)>)> = Vec::new();
        let nkeys = 1 + o.rng.below(3);
        let keys: Vec<u32> = (0..nkeys).map(|_| *o.rng.pick(&alphabet)).collect();
        for &cp in &alphabet {
            let cls: &'static str = *o.rng.pick(&plain_classes);
            let brk = if o.rng.chance(1, 4) { Some((*o.rng.pick(&keys), o.rng.chance(1, 2))) } else { None };
            // brackets are mostly ON (as the pairing logic expects), sometimes not
            // (a bracket property on an X9-removed class, BN, is the D9 situation: W4-W6 can turn such a
            // character's working class into ON)
            let cls = if brk.is_some() { if o.rng.chance(4, 6) { "ON" } else if o.rng.chance(1, 2) { "BN" } else { cls } } else { cls };
            table.push((cp, cls, brk));
        }
        for &(cp, k) in &explicit {
            let brk = if o.rng.chance(1, 8) { Some((*o.rng.pick(&keys), o.rng.chance(1, 2))) } else { None };
            table.push((cp, k, brk));
        }
        let len = 1 + o.rng.below(if thorough { 16 } else { 10 });
        let mut items = Vec::new();
        for _ in 0..len {
            if o.rng.chance(1, 5) {
                items.push(Item::Ch(o.rng.pick(&explicit).0));
            } else {
                items.push(Item::Ch(*o.rng.pick(&alphabet)));
            }
        }
        let d = o.rng.below(3);
        let enc = if o.rng.chance(1, 3) { 16 } else { 8 };
        // keep only the table rows the text uses (smaller case lines; unlisted characters default to L / no bracket)
        let used: Vec<(u32, &'static str, Option<(u32, bool)>)> = table.into_iter().filter(|e| items.contains(&Item::Ch(e.0))).collect();
        o.emit(&Case { enc, dir: dir_of(d), items, ds: Some(used), fam: "G5".into(), max_line_chars: 4 });
    }

    // ---- G5b: a custom data source that DISAGREES with the built-in one on every character it is asked about,
    // over an exhaustive role alphabet: two strong roles, an opening and a closing bracket whose ENCODED LENGTHS
    // differ (1..4 bytes / 1..2 units, so "skip the bracket's own code units" has to use the right bracket),
    // an NSM, a neutral and a number.  Every sequence of roles up to length 5 (thorough: 6); the characters and
    // classes behind the roles rotate with the sequence number.
    {
        // characters by encoded length (UTF-8 bytes / UTF-16 units): 1/1, 2/1, 3/1, 4/2
        let by_len: [&[u32]; 4] = [&[0x71, 0x7A, 0x6B], &[0x436, 0xE9, 0x3B1], &[0x3042, 0x20AC, 0x4E2D], &[0x1F300, 0x10000, 0x1D7CE]];
        let strong_pairs: [(&'static str, &'static str); 6] = [("R", "L"), ("L", "R"), ("AL", "L"), ("AN", "L"), ("R", "EN"), ("L", "AL")];
        let neutrals: [&'static str; 3] = ["ON", "WS", "ES"];
        let numbers: [&'static str; 3] = ["EN", "AN", "ET"];
        let maxlen = if thorough { 6 } else { 5 };
        let nroles = 7usize;
        let mut seqs: Vec<Vec<usize>> = vec![vec![]];
        let mut count = 0usize;
        for _l in 1..=maxlen {
            let mut nxt = Vec::with_capacity(seqs.len() * nroles);
            for q in &seqs { for a in 0..nroles { let mut t = q.clone(); t.push(a); nxt.push(t); } }
            for q in &nxt {
                // only sequences with a bracket or an NSM say anything the plain families do not
                if !q.iter().any(|&r| r == 2 || r == 3 || r == 4) { continue; }
                // the sequences with both brackets and an NSM are the target of this family: several variants, every direction
                let core = q.contains(&2) && q.contains(&3) && q.contains(&4);
                for rpt in 0..(if core { 9usize } else { 1 }) {
                count += 1;
                let v = if core { count * 7 + rpt * 1013 } else { count };
                let (lo, lc) = (v % 4, (v / 4 + 1 + v % 4) % 4);             // lengths of the opening / closing bracket: all 12 unequal pairs + equal ones
                let open = by_len[lo][(v / 16) % 3];
                let close = by_len[lc][(v / 16 + 1) % 3];
                let (c1, c2) = strong_pairs[(v / 3) % 6];
                let s1 = by_len[(v / 5) % 4][(v / 7 + 2) % 3];
                let s2 = by_len[(v / 11) % 4][(v / 13 + 1) % 3];
                let nsm = [0x6E, 0x44F, 0x3044, 0x1F600][(v / 17) % 4];
                let neu = [0x6F, 0x44E, 0x3046, 0x1F601][(v / 19) % 4];
                let num = [0x6D, 0x44D, 0x3048, 0x1F602][(v / 23) % 4];
                let mut chars = vec![s1, s2, open, close, nsm, neu, num];
                // distinct characters for distinct roles
                let mut bump = 0u32;
                for i in 0..chars.len() { while chars[..i].contains(&chars[i]) { bump += 1; chars[i] = 0x4E00 + bump; } }
                let open = chars[2];
                let table: Vec<(u32, &'static str, Option<(u32, bool)>)> = vec![
                    (chars[0], c1, None), (chars[1], c2, None),
                    (chars[2], "ON", Some((open, true))), (chars[3], "ON", Some((open, false))),
                    (chars[4], "NSM", None), (chars[5], neutrals[(v / 29) % 3], None), (chars[6], numbers[(v / 31) % 3], None)];
                let items: Vec<Item> = q.iter().map(|&r| Item::Ch(chars[r])).collect();
                let used: Vec<(u32, &'static str, Option<(u32, bool)>)> = table.into_iter().filter(|e| items.contains(&Item::Ch(e.0))).collect();
                let enc = if v % 3 == 0 { 16 } else { 8 };
                o.emit(&Case { enc, dir: dir_of(if core { rpt % 3 } else { v % 3 }), items, ds: Some(used), fam: "G5b".into(), max_line_chars: if v % 5 == 0 { 3 } else { usize::MAX } });
                }
            }
            seqs = nxt;
        }
    }

    // ---- G7: texts generated from a small grammar of the structures the isolating-run-sequence logic lives on:
    // sibling / nested matched isolates with content, bracket pairs spanning isolates, stray PDIs and initiators
    // inside brackets, embeddings inside isolates, numbers after AL across isolates, ...
    {
        let n7 = if thorough { 2500000 } else { 260000 };
        // every case draws from its own small THEME (2-4 atom classes, one or two initiators): a specific pattern
        // over a few classes is then far more likely than under a uniform draw from all classes
        let all_atoms = ["L", "R", "AL", "EN", "AN", "ES", "ET", "CS", "NSM", "ON", "WS", "BN"];
        let strong = ["L", "R", "AL", "L", "R"];
        fn gen_seq(o: &mut Out, atoms: &[&str], inits: &[u32], depth: usize, budget: &mut usize, out: &mut Vec<Item>) {
            let n = 1 + o.rng.below(if depth == 0 { 5 } else { 3 });
            for _ in 0..n {
                if *budget == 0 { return; }
                let r = o.rng.below(100);
                let k = o.rng.below(4);
                if r < 46 || depth >= 3 {
                    let a = *o.rng.pick(atoms);
                    out.push(Item::Ch(rep(sym(a), k))); *budget -= 1;
                } else if r < 62 {
                    // matched isolate with content (possibly empty)
                    let init = *o.rng.pick(inits);
                    out.push(Item::Ch(init)); *budget = budget.saturating_sub(2);
                    if o.rng.chance(4, 5) { gen_seq(o, atoms, inits, depth + 1, budget, out); }
                    out.push(Item::Ch(0x2069));
                } else if r < 76 {
                    // bracket pair around a sub-sequence
                    let round = o.rng.chance(1, 2);
                    out.push(Item::Ch(rep(sym(if round { "(" } else { "[" }), k))); *budget = budget.saturating_sub(2);
                    gen_seq(o, atoms, inits, depth + 1, budget, out);
                    out.push(Item::Ch(rep(sym(if round { ")" } else { "]" }), k)));
                } else if r < 84 {
                    // embedding / override around a sub-sequence (sometimes left open)
                    let init = [0x202Au32, 0x202B, 0x202D, 0x202E][o.rng.below(4)];
                    out.push(Item::Ch(init)); *budget = budget.saturating_sub(2);
                    gen_seq(o, atoms, inits, depth + 1, budget, out);
                    if o.rng.chance(3, 4) { out.push(Item::Ch(0x202C)); }
                } else if r < 90 {
                    out.push(Item::Ch(0x2069)); *budget -= 1;                 // stray PDI
                } else if r < 94 {
                    out.push(Item::Ch(*o.rng.pick(inits))); *budget -= 1;   // stray initiator
                } else if r < 97 {
                    out.push(Item::Ch(0x202C)); *budget -= 1;                 // stray PDF
                } else {
                    out.push(Item::Ch(rep(sym(if o.rng.chance(1, 2) { ")" } else { "(" }), k))); *budget -= 1;   // stray bracket
                }
            }
        }
        for _ in 0..n7 {
            let mut items = Vec::new();
            let mut theme: Vec<&str> = vec![*o.rng.pick(&strong)];
            for _ in 0..1 + o.rng.below(3) { theme.push(*o.rng.pick(&all_atoms)); }
            if o.rng.chance(1, 2) { theme.push(*o.rng.pick(&strong)); }
            let mut inits: Vec<u32> = vec![[0x2066u32, 0x2067, 0x2068][o.rng.below(3)]];
            if o.rng.chance(1, 3) { inits.push([0x2066u32, 0x2067, 0x2068][o.rng.below(3)]); }
            let mut budget = 4 + o.rng.below(if thorough { 12 } else { 9 });
            gen_seq(&mut o, &theme, &inits, 0, &mut budget, &mut items);
            if items.len() < 3 { continue; }
            // most of these cases carry no lines: they are about the resolved levels
            let enc = if o.rng.chance(1, 8) { 16 } else { 8 };
            let d = dir_of(o.rng.below(3));
            let lines_ok = o.rng.chance(1, 10);
            o.emit(&Case { enc, dir: d, items, ds: None, fam: "G7".into(), max_line_chars: if lines_ok { 3 } else { usize::MAX } });
        }
    }

    // ---- G8: several short paragraphs in one text (state must not leak across a separator: scratch buffers,
    // isolate tracking, flags).  Paragraph heads and tails are biased to the characters whose treatment depends on
    // "what came before / comes after": ET, NSM, numbers, removed characters, unclosed initiators, stray terminators.
    {
        let n8 = if thorough { 300000 } else { 40000 };
        let heads = ["ET", "NSM", "EN", "AN", "PDI", "PDF", "BN", "ES", "CS", ")", "WS", "ON", "R", "AL", "L"];
        let tails = ["BN", "PDF", "LRI", "RLI", "FSI", "RLE", "LRO", "NSM", "ET", "EN", "WS", "(", "R", "AL", "L", "PDF", "BN"];
        let mids = ["L", "R", "AL", "EN", "AN", "ET", "ES", "CS", "NSM", "ON", "WS", "BN", "LRI", "RLI", "PDI", "RLE", "PDF", "(", ")"];
        for _ in 0..n8 {
            let npar = 2 + o.rng.below(3);
            let mut items: Vec<Item> = Vec::new();
            for pi in 0..npar {
                let k0 = o.rng.below(4);
                for j in 0..1 + o.rng.below(2) { let h = *o.rng.pick(&heads); items.push(Item::Ch(rep(sym(h), j + k0))); }
                for j in 0..o.rng.below(4) { let m = *o.rng.pick(&mids); items.push(Item::Ch(rep(sym(m), j + k0))); }
                for j in 0..1 + o.rng.below(3) { let t = *o.rng.pick(&tails); items.push(Item::Ch(rep(sym(t), j + k0))); }
                if o.rng.chance(1, 2) { for j in 0..1 + o.rng.below(2) { let m = *o.rng.pick(&mids); items.push(Item::Ch(rep(sym(m), j))); } }
                if pi + 1 < npar || o.rng.chance(1, 3) { items.push(Item::Ch(*o.rng.pick(B_CHARS))); }
            }
            let enc = if o.rng.chance(1, 6) { 16 } else { 8 };
            let d = dir_of(o.rng.below(3));
            let lines_ok = o.rng.chance(1, 8);
            o.emit(&Case { enc, dir: d, items, ds: None, fam: "G8".into(), max_line_chars: if lines_ok { 3 } else { usize::MAX } });
        }
    }

    // ---- G9: lines made of MANY level runs (33 .. 90, one or two characters each) at three or more levels:
    // run-count thresholds (small-vector inline capacity, "fast paths" for short lines) sit at 8 / 16 / 32 / 64 runs
    {
        let n9 = if thorough { 8000 } else { 800 };
        for k in 0..n9 {
            let enc: u8 = if o.rng.chance(1, 4) { 16 } else { 8 };
            let nruns = match k % 6 { 0 => 7 + o.rng.below(4), 1 => 15 + o.rng.below(4), 2 => 31 + o.rng.below(4), 3 => 63 + o.rng.below(4), _ => 33 + o.rng.below(58) };
            let mut items: Vec<Item> = Vec::new();
            let alt = [["L", "R"], ["R", "EN"], ["L", "AL"], ["R", "L"]][o.rng.below(4)];
            let mut open_iso = 0usize; let mut open_emb = 0usize;
            for j in 0..nruns {
                // an initiator / terminator now and then: the following runs sit one or two levels higher
                if o.rng.chance(1, 9) {
                    let c = [0x2066u32, 0x2067, 0x202A, 0x202B, 0x2068][o.rng.below(5)];
                    if c >= 0x2066 { open_iso += 1 } else { open_emb += 1 }
                    items.push(Item::Ch(c));
                } else if open_iso > 0 && o.rng.chance(1, 12) { items.push(Item::Ch(0x2069)); open_iso -= 1; }
                else if open_emb > 0 && o.rng.chance(1, 12) { items.push(Item::Ch(0x202C)); open_emb -= 1; }
                let cls = alt[j % 2];
                items.push(Item::Ch(rep(sym(cls), j % 3)));
                if o.rng.chance(1, 10) { items.push(Item::Ch(rep(sym(cls), (j + 1) % 3))); }
            }
            let n = items.len();
            let mut lines = vec![(0, n)];
            let a = o.rng.below(4); let b = n - o.rng.below(4);
            if a < b { lines.push((a, b)); }
            if n > 40 { lines.push((n - 36 - o.rng.below(4), n)); lines.push((0, 34 + o.rng.below(4))); }
            lines.sort(); lines.dedup();
            let d = dir_of(o.rng.below(3));
            o.emit_lines(&Case { enc, dir: d, items, ds: None, fam: "G9".into(), max_line_chars: 0 }, lines);
        }
    }

    // ---- G6: long uniform runs with a perturbation next to a power-of-two code-unit offset ----------------
    // (block-wise "fast paths" over 8/16/32/64/128 units go wrong exactly there: a run boundary at a block
    // start, a removed character right after a block, a surrogate pair straddling a block end)
    {
        let n6 = if thorough { 5000 } else { 900 };
        let nb_syms: Vec<usize> = (0..nsym).filter(|&s| REPS[s].0 != "B").collect();
        let bases = ["L", "R", "R", "AL", "EN", "AN", "ON", "WS", "ET", "NSM", "L", "R"];
        let targets: &[usize] = if thorough { &[8, 16, 32, 64, 128, 256] } else { &[8, 16, 16, 32, 32, 64, 64, 128] };
        for _ in 0..n6 {
            let enc: u8 = if o.rng.chance(2, 5) { 16 } else { 8 };
            let b1 = sym(*o.rng.pick(&bases));
            let k1 = o.rng.below(4);
            let c1 = Item::Ch(rep(b1, k1));
            let w1 = units(enc, &c1).max(1);
            let target = *o.rng.pick(targets);
            let mut items: Vec<Item> = Vec::new();
            // optional short prefix (shifts the alignment of everything after it; also the start of sub-lines)
            let npre = if o.rng.chance(1, 3) { 1 + o.rng.below(2) } else { 0 };
            for j in 0..npre { let s = *o.rng.pick(&nb_syms); items.push(Item::Ch(rep(s, j))); }
            // first run: up to the target offset (counted from the text start or from the prefix end), +-1 character
            let n1 = (target / w1 + o.rng.below(3)).saturating_sub(1).max(1);
            for _ in 0..n1 { items.push(c1); }
            // perturbation: 1-2 characters of any class (removed characters, opposite strong, supplementary ...)
            for j in 0..1 + o.rng.below(2) {
                let s = if o.rng.chance(1, 3) { sym(*o.rng.pick(&["BN", "RLE", "PDF", "LRE", "WS", "S"])) } else { *o.rng.pick(&nb_syms) };
                items.push(Item::Ch(rep(s, j + o.rng.below(4))));
            }
            // second run: the same character again (a run at the first level resumes) or another class, longer than a block
            let (b2, k2) = if o.rng.chance(2, 3) { (b1, k1) } else { (sym(*o.rng.pick(&bases)), o.rng.below(4)) };
            let c2 = Item::Ch(rep(b2, k2));
            let w2 = units(enc, &c2).max(1);
            let n2 = (target + o.rng.below(target / 2 + 2)) / w2 + 1;
            for _ in 0..n2 { items.push(c2); }
            // sometimes a supplementary / other character inside the second run near its block end, then more of the run
            if o.rng.chance(1, 3) {
                let s = *o.rng.pick(&nb_syms);
                items.push(Item::Ch(rep(s, 3)));
                for _ in 0..(target / w2 / 2 + 1) { items.push(c2); }
            }
            for j in 0..o.rng.below(3) { let s = *o.rng.pick(&nb_syms); items.push(Item::Ch(rep(s, j))); }
            let n = items.len();
            let d = dir_of(o.rng.below(3));
            // lines: the whole text, the text after the prefix, and a few cuts near both ends
            let mut lines = vec![(0, n)];
            if npre > 0 { lines.push((npre, n)); }
            if n > 3 { lines.push((1, n)); lines.push((0, n - 1)); lines.push((o.rng.below(3), n - o.rng.below(3))); }
            lines.sort(); lines.dedup();
            let lines: Vec<(usize, usize)> = lines.into_iter().filter(|l| l.0 < l.1).collect();
            o.emit_lines(&Case { enc, dir: d, items, ds: None, fam: "G6".into(), max_line_chars: 0 }, lines);
        }
    }

    // ---- C13: isolate pairs ------------------------------------------------------------------------
    let n13 = if thorough { 15000 } else { 1500 };
    let nb_syms: Vec<usize> = (0..nsym).filter(|&s| REPS[s].0 != "B").collect();
    for _ in 0..n13 {
        let gen_any = |o: &mut Out, n: usize, allow_b: bool| -> Vec<Item> {
            (0..n).map(|k| {
                let s = if allow_b && o.rng.chance(1, 15) { sym("B") } else { *o.rng.pick(&nb_syms) };
                let salt = o.rng.below(4);
                Item::Ch(rep(s, k + salt))
            }).collect()
        };
        // balanced, B-free content
        let gen_content = |o: &mut Out| -> Vec<Item> {
            let n = o.rng.below(7);
            let mut v = Vec::new();
            let mut open = 0;
            for k in 0..n {
                let s = *o.rng.pick(&nb_syms);
                let name = REPS[s].0;
                if name == "PDI" {
                    if open > 0 { open -= 1; v.push(Item::Ch(0x2069)); }
                } else if name == "LRI" || name == "RLI" || name == "FSI" {
                    open += 1;
                    v.push(Item::Ch(rep(s, 0)));
                } else {
                    let salt = o.rng.below(4);
                    v.push(Item::Ch(rep(s, k + salt)));
                }
            }
            for _ in 0..open { v.push(Item::Ch(0x2069)); }
            v
        };
        let np = o.rng.below(5);
        let mut prefix = gen_any(&mut o, np, false);
        let ns = o.rng.below(5);
        let mut suffix = gen_any(&mut o, ns, false);
        // half of the pairs put the isolate inside a bracket pair of the outer text, after a strong or
        // numeric character: N0 then inspects "the characters enclosed by the brackets", which must not
        // include the isolate's content
        if o.rng.chance(1, 2) {
            let strongish = ["L", "R", "AL", "EN", "AN"];
            let st = sym(*o.rng.pick(&strongish));
            let k = o.rng.below(4);
            prefix.push(Item::Ch(rep(st, k)));
            if o.rng.chance(1, 3) { prefix.push(Item::Ch(0x20)); }
            let round = o.rng.chance(1, 2);
            let k2 = o.rng.below(4);
            prefix.push(Item::Ch(rep(sym(if round { "(" } else { "[" }), k2)));
            if o.rng.chance(1, 4) { let s = *o.rng.pick(&nb_syms); if !["LRI", "RLI", "FSI", "PDI", "(", ")", "[", "]"].contains(&REPS[s].0) { prefix.push(Item::Ch(rep(s, k))); } }
            // a stray PDI (matching nothing) between the bracket and the isolate: depth counting must not go wrong
            if o.rng.chance(1, 4) { prefix.push(Item::Ch(0x2069)); }
            let mut suf2 = Vec::new();
            if o.rng.chance(1, 4) { let s = *o.rng.pick(&nb_syms); if !["LRI", "RLI", "FSI", "PDI", "(", ")", "[", "]"].contains(&REPS[s].0) { suf2.push(Item::Ch(rep(s, k2))); } }
            suf2.push(Item::Ch(rep(sym(if round { ")" } else { "]" }), k2)));
            suf2.extend(suffix.iter().cloned());
            suffix = suf2;
        }
        let init = Item::Ch(0x2066 + o.rng.below(2) as u32);
        let mut c1 = gen_content(&mut o);
        let mut c2 = gen_content(&mut o);
        let mut d = dir_of(o.rng.below(3));
        // one pair in eight sits just below the depth limit: 59..61 nested (RLE LRE) pairs in a forced-LTR
        // paragraph (so the isolate itself is still valid), embeddings that overflow inside the isolate,
        // and embedding controls after the PDI (X6a must restore the state of the initiator exactly)
        if o.rng.chance(1, 8) {
            let k = 59 + o.rng.below(3);
            let mut deep = Vec::new();
            for _ in 0..k { deep.push(Item::Ch(0x202B)); deep.push(Item::Ch(0x202A)); }
            let simple = ["L", "R", "EN", "ON", "WS"];
            for j in 0..o.rng.below(3) { let sname = *o.rng.pick(&simple); deep.push(Item::Ch(rep(sym(sname), j))); }
            prefix = deep;
            let after = ["RLE", "LRE", "PDF", "PDF", "L", "R", "AL", "EN", "ON", "RLO"];
            suffix = (0..1 + o.rng.below(5)).map(|j| { let sname = *o.rng.pick(&after); Item::Ch(rep(sym(sname), j)) }).collect();
            // usually: an embedding control right after the PDI, then a letter whose level shows the state
            if o.rng.chance(3, 4) {
                let first = if o.rng.chance(1, 2) { 0x202Cu32 } else { 0x202B };
                suffix.insert(0, Item::Ch(rep(sym(if o.rng.chance(1, 2) { "L" } else { "R" }), 0)));
                suffix.insert(0, Item::Ch(first));
            }
            let unclosed = [0x202Au32, 0x202B, 0x202D, 0x202E];
            if o.rng.chance(3, 4) { c1.insert(0, Item::Ch(*o.rng.pick(&unclosed))); c1.push(Item::Ch(rep(sym("L"), 0))); }
            if o.rng.chance(1, 4) { c2.insert(0, Item::Ch(*o.rng.pick(&unclosed))); c2.push(Item::Ch(rep(sym("R"), 0))); }
            d = '0';
        }
        let enc = if o.rng.chance(1, 5) { 16 } else { 8 };
        let build = |c: &Vec<Item>| { let mut t = prefix.clone(); t.push(init); t.extend(c.iter().cloned()); t.push(Item::Ch(0x2069)); t.extend(suffix.iter().cloned()); t };
        let pu: usize = prefix.iter().map(|i| units(enc, i)).sum::<usize>() + units(enc, &init);
        let su: usize = suffix.iter().map(|i| units(enc, i)).sum::<usize>() + units(enc, &Item::Ch(0x2069));
        let (id1, _) = o.emit_with(&Case { enc, dir: d, items: build(&c1), ds: None, fam: "ISO".into(), max_line_chars: 0 }, "", None);
        o.emit_with(&Case { enc, dir: d, items: build(&c2), ds: None, fam: "ISO".into(), max_line_chars: 0 }, &format!(" iso:{}:{}:{}", id1, pu, su), None);
    }

    // ---- V: raw level vectors for reorder_visual ----------------------------------------------------
    let alpha = [0usize, 1, 2, 3, 4];
    let maxv = if thorough { 7 } else { 5 };
    let mut cur: Vec<Vec<usize>> = vec![vec![]];
    o.raw(format!("V\t{}\t-", o.n), "V");
    o.n += 1;
    for _ in 1..=maxv {
        let mut nxt = Vec::new();
        for s in &cur { for a in alpha { let mut t = s.clone(); t.push(a); nxt.push(t); } }
        for s in &nxt {
            let id = o.n; o.n += 1;
            o.raw(format!("V\t{}\t{}", id, s.iter().map(|x| x.to_string()).collect::<Vec<_>>().join(",")), "V");
        }
        cur = nxt;
    }
    let nv = if thorough { 50000 } else { 3000 };
    for k in 0..nv {
        let len = 1 + o.rng.below(24);
        let mode = k % 5;
        let base = o.rng.below(120);
        let v: Vec<usize> = (0..len).map(|j| match mode {
            0 => o.rng.below(127),
            1 => 126 - o.rng.below(3),
            2 => std::cmp::min(126, base + o.rng.below(6)),
            3 => 126,
            _ => { let h = len / 2; let dist = if j < h { j } else { len - 1 - j }; std::cmp::min(126, base % 100 + dist) }
        }).collect();
        let id = o.n; o.n += 1;
        o.raw(format!("V\t{}\t{}", id, v.iter().map(|x| x.to_string()).collect::<Vec<_>>().join(",")), "V");
    }

    let nvl = if thorough { 8000 } else { 800 };
    for k in 0..nvl {
        let len = match k % 5 { 0 => 31 + o.rng.below(4), 1 => 63 + o.rng.below(4), 2 => 127 + o.rng.below(4), _ => 25 + o.rng.below(100) };
        let base = o.rng.below(122);
        let spread = 2 + o.rng.below(4);
        let v: Vec<usize> = (0..len).map(|_| std::cmp::min(126, base + o.rng.below(spread))).collect();
        let id = o.n; o.n += 1;
        o.raw(format!("V\t{}\t{}", id, v.iter().map(|x| x.to_string()).collect::<Vec<_>>().join(",")), "V");
    }

    // ---- I / S: UTF-16 iterator programs and TextSource methods -------------------------------------
    let iu: [u16; 5] = [0x41, 0xD801, 0xDC01, 0x20, 0x5D0];
    let maxi = if thorough { 4 } else { 3 };
    let mut texts: Vec<Vec<u16>> = vec![vec![]];
    let mut all_texts: Vec<Vec<u16>> = vec![vec![]];
    for _ in 1..=maxi {
        let mut nxt = Vec::new();
        for s in &texts { for a in iu { let mut t = s.clone(); t.push(a); nxt.push(t); } }
        all_texts.extend(nxt.iter().cloned());
        texts = nxt;
    }
    for t in &all_texts {
        let hex = if t.is_empty() { "-".to_string() } else { t.iter().map(|u| format!("{:x}", u)).collect::<Vec<_>>().join(",") };
        let id = o.n; o.n += 1;
        o.raw(format!("S\t{}\t16\t{}", id, hex), "S");
        // every program of length <= n+2
        let maxp = t.len() + 2;
        for plen in 1..=maxp {
            for bits in 0..(1u32 << plen) {
                let ops: String = (0..plen).map(|b| if bits >> b & 1 == 1 { 'b' } else { 'f' }).collect();
                let id = o.n; o.n += 1;
                o.raw(format!("I\t{}\t{}\t{}", id, hex, ops), "I");
            }
        }
    }
    let ni = if thorough { 30000 } else { 2000 };
    for _ in 0..ni {
        let len = 1 + o.rng.below(10);
        let t: Vec<u16> = (0..len).map(|_| match o.rng.below(6) { 0 => 0xD800 + o.rng.below(0x400) as u16, 1 => 0xDC00 + o.rng.below(0x400) as u16, 2 => 0xD800, 3 => 0xDFFF, 4 => 0x5D0, _ => 0x20 + o.rng.below(0x60) as u16 }).collect();
        let hex = t.iter().map(|u| format!("{:x}", u)).collect::<Vec<_>>().join(",");
        let plen = 1 + o.rng.below(len + 3);
        let ops: String = (0..plen).map(|_| if o.rng.chance(1, 2) { 'b' } else { 'f' }).collect();
        let id = o.n; o.n += 1;
        o.raw(format!("I\t{}\t{}\t{}", id, hex, ops), "I");
        let id = o.n; o.n += 1;
        o.raw(format!("S\t{}\t16\t{}", id, hex), "S");
    }
    for k in 0..(if thorough { 3000 } else { 300 }) {
        let len = o.rng.below(8);
        let t: Vec<u32> = (0..len).map(|j| rep(o.rng.below(nsym), j + k)).collect();
        let hex = if t.is_empty() { "-".to_string() } else { t.iter().map(|u| format!("{:x}", u)).collect::<Vec<_>>().join(",") };
        let id = o.n; o.n += 1;
        o.raw(format!("S\t{}\t8\t{}", id, hex), "S");
    }

    o.w.flush().unwrap();
    // measured distribution -> stderr as `key value` lines (the runner puts them into the evidence)
    for (k, v) in &o.stats {
        eprintln!("genstat {} {}", k, v);
    }
}
