// bidi-harness: the implementation side of the correspondence check (DESIGN 4.7).
//   gen   --seed S --tier quick|thorough --out FILE     write the case file (one PRNG)
//   run   FILE                                           run every case through the REAL crate, one line per case
//   tables                                               exhaustive dump of bidi_class / bracket lookup (C14, C15)
//   levels                                               full-domain dump of every Level operation (C19)
//   serde                                                Level serde round trip (C20; needs feature ub-serde)
// Panics of the crate are caught and printed as `P`.
#![allow(deprecated)]
use std::collections::HashMap;
use std::fmt::Write as _;
use std::io::{BufRead, BufWriter, Write};
use std::panic::{catch_unwind, AssertUnwindSafe};

use unicode_bidi::data_source::BidiMatchedOpeningBracket;
use unicode_bidi::{BidiClass, BidiDataSource, Direction, Level};

mod gen;

// ---------------------------------------------------------------- data sources
pub struct TableDs {
    pub map: HashMap<char, (BidiClass, Option<(char, bool)>)>,
}
impl BidiDataSource for TableDs {
    fn bidi_class(&self, c: char) -> BidiClass {
        self.map.get(&c).map(|x| x.0).unwrap_or(BidiClass::L)
    }
    fn bidi_matched_opening_bracket(&self, c: char) -> Option<BidiMatchedOpeningBracket> {
        self.map.get(&c).and_then(|x| x.1).map(|(o, open)| BidiMatchedOpeningBracket {
            opening: o,
            is_open: open,
        })
    }
}

pub fn class_name(c: BidiClass) -> &'static str {
    use BidiClass::*;
    match c {
        AL => "AL", AN => "AN", B => "B", BN => "BN", CS => "CS", EN => "EN", ES => "ES", ET => "ET",
        FSI => "FSI", L => "L", LRE => "LRE", LRI => "LRI", LRO => "LRO", NSM => "NSM", ON => "ON",
        PDF => "PDF", PDI => "PDI", R => "R", RLE => "RLE", RLI => "RLI", RLO => "RLO", S => "S", WS => "WS",
    }
}
pub fn class_from_name(s: &str) -> BidiClass {
    use BidiClass::*;
    match s {
        "AL" => AL, "AN" => AN, "B" => B, "BN" => BN, "CS" => CS, "EN" => EN, "ES" => ES, "ET" => ET,
        "FSI" => FSI, "L" => L, "LRE" => LRE, "LRI" => LRI, "LRO" => LRO, "NSM" => NSM, "ON" => ON,
        "PDF" => PDF, "PDI" => PDI, "R" => R, "RLE" => RLE, "RLI" => RLI, "RLO" => RLO, "S" => S, "WS" => WS,
        _ => panic!("bad class {}", s),
    }
}

// ---------------------------------------------------------------- printing helpers
fn csv<T, F: Fn(&T) -> String>(v: &[T], f: F) -> String {
    let mut s = String::new();
    for (i, x) in v.iter().enumerate() {
        if i > 0 {
            s.push(',');
        }
        s.push_str(&f(x));
    }
    s
}
fn classes_s(v: &[BidiClass]) -> String {
    csv(v, |c| class_name(*c).to_string())
}
fn levels_s(v: &[Level]) -> String {
    csv(v, |l| l.number().to_string())
}
fn usizes_s(v: &[usize]) -> String {
    csv(v, |l| l.to_string())
}
fn paras_s(v: &[unicode_bidi::ParagraphInfo]) -> String {
    csv(v, |p| format!("{}-{}:{}", p.range.start, p.range.end, p.level.number()))
}
fn runs_s(v: &[std::ops::Range<usize>]) -> String {
    csv(v, |r| format!("{}-{}", r.start, r.end))
}
fn dir_s(d: &Direction) -> &'static str {
    match d {
        Direction::Ltr => "L",
        Direction::Rtl => "R",
        Direction::Mixed => "M",
    }
}
fn hex_str(s: &str) -> String {
    let v: Vec<char> = s.chars().collect();
    csv(&v, |c| format!("{:x}", *c as u32))
}
fn hex_u16(v: &[u16]) -> String {
    csv(v, |c| format!("{:x}", *c))
}
fn guard<T, F: FnOnce() -> T>(f: F) -> Option<T> {
    catch_unwind(AssertUnwindSafe(f)).ok()
}
fn or_p(o: Option<String>) -> String {
    o.unwrap_or_else(|| "P".to_string())
}

// ---------------------------------------------------------------- one text case, both encodings
macro_rules! impl_run_text {
    ($fname:ident, $m:path, $TextT:ty, $hex:ident, $convfn:ident) => {
        fn $fname<D: BidiDataSource>(ds: &D, text: &$TextT, dir: Option<Level>, lines: &[(usize, usize)], conv: bool) -> String {
            use $m as m;
            let mut out = String::new();
            // InitialInfo
            let ii = guard(|| m::InitialInfo::new_with_data_source(ds, text, dir));
            write!(out, "ii={}", or_p(ii.as_ref().map(|x| format!("{}|{}", classes_s(&x.original_classes), paras_s(&x.paragraphs))))).unwrap();
            // BidiInfo
            let bi = guard(|| m::BidiInfo::new_with_data_source(ds, text, dir));
            write!(out, "\tbi={}", or_p(bi.as_ref().map(|x| format!("{}|{}|{}", classes_s(&x.original_classes), levels_s(&x.levels), paras_s(&x.paragraphs))))).unwrap();
            match &bi {
                None => {
                    write!(out, "\tbih=P\tbid=P\tbila=P\tbil={}", csv(lines, |l| format!("{}-{}~P~P~P~P~P~P~P", l.0, l.1)).replace(",", "/")).unwrap();
                }
                Some(bi) => {
                    write!(out, "\tbih={}", or_p(guard(|| bi.has_rtl()).map(|b| (b as u8).to_string()))).unwrap();
                    write!(out, "\tbid={}", or_p(guard(|| {
                        let v: Vec<Direction> = bi.paragraphs.iter().map(|p| m::Paragraph::new(bi, p).direction()).collect();
                        csv(&v, |d| dir_s(d).to_string())
                    }))).unwrap();
                    write!(out, "\tbila={}", or_p(guard(|| {
                        let v: Vec<String> = bi.paragraphs.iter().map(|p| {
                            let para = m::Paragraph::new(bi, p);
                            let lv: Vec<Level> = (0..p.len()).map(|k| para.level_at(k)).collect();
                            levels_s(&lv)
                        }).collect();
                        v.join(";")
                    }))).unwrap();
                    let mut ls = Vec::new();
                    for &(a, b) in lines {
                        let para = bi.paragraphs.iter().find(|p| p.range.start <= a && a < p.range.end);
                        let s = match para {
                            None => format!("{}-{}~P~P~P~P~P~P~P", a, b),
                            Some(para) => {
                                let rl = guard(|| bi.reordered_levels(para, a..b));
                                let rlc = guard(|| bi.reordered_levels_per_char(para, a..b));
                                let vr = guard(|| bi.visual_runs(para, a..b));
                                let dvr = rl.as_ref().and_then(|rl| guard(|| unicode_bidi::deprecated::visual_runs(a..b, rl)));
                                let ro = guard(|| bi.reorder_line(para, a..b));
                                let rv = rl.as_ref().and_then(|rl| guard(|| m::BidiInfo::reorder_visual(&rl[a..b])));
                                format!("{}-{}~{}~{}~{}~{}~{}~{}~{}", a, b,
                                    or_p(rl.as_ref().map(|v| levels_s(v))),
                                    or_p(rlc.as_ref().map(|v| levels_s(v))),
                                    or_p(vr.as_ref().map(|v| levels_s(&v.0))),
                                    or_p(vr.as_ref().map(|v| runs_s(&v.1))),
                                    or_p(dvr.as_ref().map(|v| runs_s(v))),
                                    or_p(ro.as_ref().map(|v| $hex(v))),
                                    or_p(rv.as_ref().map(|v| usizes_s(v))))
                            }
                        };
                        ls.push(s);
                    }
                    write!(out, "\tbil={}", ls.join("/")).unwrap();
                }
            }
            // ParagraphBidiInfo
            let pi = guard(|| m::ParagraphBidiInfo::new_with_data_source(ds, text, dir));
            write!(out, "\tpi={}", or_p(pi.as_ref().map(|x| format!("{}|{}|{}|{}", classes_s(&x.original_classes), levels_s(&x.levels), x.paragraph_level.number(), x.is_pure_ltr as u8)))).unwrap();
            match &pi {
                None => {
                    write!(out, "\tpih=P\tpid=P\tpil={}", csv(lines, |l| format!("{}-{}~P~P~P~P~P~P~P", l.0, l.1)).replace(",", "/")).unwrap();
                }
                Some(pi) => {
                    write!(out, "\tpih={}", or_p(guard(|| pi.has_rtl()).map(|b| (b as u8).to_string()))).unwrap();
                    write!(out, "\tpid={}", or_p(guard(|| dir_s(&pi.direction()).to_string()))).unwrap();
                    let mut ls = Vec::new();
                    for &(a, b) in lines {
                        let rl = guard(|| pi.reordered_levels(a..b));
                        let rlc = guard(|| pi.reordered_levels_per_char(a..b));
                        let vr = guard(|| pi.visual_runs(a..b));
                        let dvr = rl.as_ref().and_then(|rl| guard(|| unicode_bidi::deprecated::visual_runs(a..b, rl)));
                        let ro = guard(|| pi.reorder_line(a..b));
                        let rv = rl.as_ref().and_then(|rl| guard(|| m::ParagraphBidiInfo::reorder_visual(&rl[a..b])));
                        ls.push(format!("{}-{}~{}~{}~{}~{}~{}~{}~{}", a, b,
                            or_p(rl.as_ref().map(|v| levels_s(v))),
                            or_p(rlc.as_ref().map(|v| levels_s(v))),
                            or_p(vr.as_ref().map(|v| levels_s(&v.0))),
                            or_p(vr.as_ref().map(|v| runs_s(&v.1))),
                            or_p(dvr.as_ref().map(|v| runs_s(v))),
                            or_p(ro.as_ref().map(|v| $hex(v))),
                            or_p(rv.as_ref().map(|v| usizes_s(v)))));
                    }
                    write!(out, "\tpil={}", ls.join("/")).unwrap();
                }
            }
            // base direction
            write!(out, "\tbd={}", or_p(guard(|| dir_s(&unicode_bidi::get_base_direction_with_data_source(ds, text)).to_string()))).unwrap();
            write!(out, "\tbdf={}", or_p(guard(|| dir_s(&unicode_bidi::get_base_direction_full_with_data_source(ds, text)).to_string()))).unwrap();
            // convenience constructors == explicit built-in source (C12, last sentence)
            if conv {
                let c = guard(|| $convfn(text, dir, &ii, &bi, &pi));
                write!(out, "\tconv={}", or_p(c.map(|b| (b as u8).to_string()))).unwrap();
            } else {
                write!(out, "\tconv=-").unwrap();
            }
            // every paragraph analysed on its own (C10)
            match &bi {
                None => write!(out, "\tsub=").unwrap(),
                Some(bi) => {
                    let v: Vec<String> = bi.paragraphs.iter().map(|p| {
                        or_p(guard(|| {
                            let sub = &text[p.range.clone()];
                            let x = m::BidiInfo::new_with_data_source(ds, sub, dir);
                            format!("{}|{}|{}", classes_s(&x.original_classes), levels_s(&x.levels), paras_s(&x.paragraphs))
                        }))
                    }).collect();
                    write!(out, "\tsub={}", v.join("/")).unwrap();
                }
            }
            out
        }
    };
}

#[cfg(feature = "ub-hardcoded")]
fn conv8(text: &str, dir: Option<Level>, ii: &Option<unicode_bidi::InitialInfo>, bi: &Option<unicode_bidi::BidiInfo>, pi: &Option<unicode_bidi::ParagraphBidiInfo>) -> bool {
    use unicode_bidi::*;
    let d = HardcodedBidiData;
    ii.as_ref().map_or(false, |x| *x == InitialInfo::new(text, dir))
        && bi.as_ref().map_or(false, |x| *x == BidiInfo::new(text, dir))
        && pi.as_ref().map_or(false, |x| *x == ParagraphBidiInfo::new(text, dir))
        && get_base_direction(text) == get_base_direction_with_data_source(&d, text)
        && get_base_direction_full(text) == get_base_direction_full_with_data_source(&d, text)
}
#[cfg(feature = "ub-hardcoded")]
fn conv16(text: &[u16], dir: Option<Level>, ii: &Option<unicode_bidi::utf16::InitialInfo>, bi: &Option<unicode_bidi::utf16::BidiInfo>, pi: &Option<unicode_bidi::utf16::ParagraphBidiInfo>) -> bool {
    use unicode_bidi::utf16::*;
    use unicode_bidi::{get_base_direction, get_base_direction_full, get_base_direction_full_with_data_source, get_base_direction_with_data_source, HardcodedBidiData};
    let d = HardcodedBidiData;
    ii.as_ref().map_or(false, |x| *x == InitialInfo::new(text, dir))
        && bi.as_ref().map_or(false, |x| *x == BidiInfo::new(text, dir))
        && pi.as_ref().map_or(false, |x| *x == ParagraphBidiInfo::new(text, dir))
        && get_base_direction(text) == get_base_direction_with_data_source(&d, text)
        && get_base_direction_full(text) == get_base_direction_full_with_data_source(&d, text)
}

impl_run_text!(run_text8, unicode_bidi, str, hex_str, conv8);
impl_run_text!(run_text16, unicode_bidi::utf16, [u16], hex_u16, conv16);

// ---------------------------------------------------------------- case parsing
fn parse_hex_list(s: &str) -> Vec<u32> {
    if s == "-" || s.is_empty() {
        return vec![];
    }
    s.split(',').map(|x| u32::from_str_radix(x, 16).expect("hex")).collect()
}
fn parse_ds(s: &str) -> Option<TableDs> {
    if s == "-" {
        return None;
    }
    let mut map = HashMap::new();
    for ent in s.split(',') {
        let p: Vec<&str> = ent.split(':').collect();
        let c = char::from_u32(u32::from_str_radix(p[0], 16).unwrap()).unwrap();
        let cls = class_from_name(p[1]);
        let brk = match p[2] {
            "-" => None,
            x => {
                let open = x.starts_with('o');
                let key = char::from_u32(u32::from_str_radix(&x[1..], 16).unwrap()).unwrap();
                Some((key, open))
            }
        };
        map.insert(c, (cls, brk));
    }
    Some(TableDs { map })
}
fn parse_lines(s: &str) -> Vec<(usize, usize)> {
    if s == "-" || s.is_empty() {
        return vec![];
    }
    s.split(',')
        .map(|x| {
            let mut it = x.split('-');
            (it.next().unwrap().parse().unwrap(), it.next().unwrap().parse().unwrap())
        })
        .collect()
}

fn run_case(line: &str) -> String {
    let f: Vec<&str> = line.split('\t').collect();
    match f[0] {
        "T" => {
            let id = f[1];
            let dir = match f[3] {
                "a" => None,
                "0" => Some(Level::ltr()),
                "1" => Some(Level::rtl()),
                _ => panic!("dir"),
            };
            let cps = parse_hex_list(f[4]);
            let ds = parse_ds(f[5]);
            let lines = parse_lines(f[6]);
            let body = if f[2] == "8" {
                let text: String = cps.iter().map(|&c| char::from_u32(c).expect("scalar")).collect();
                match &ds {
                    Some(d) => run_text8(d, &text, dir, &lines, false),
                    None => run_text8(&unicode_bidi::HardcodedBidiData, &text, dir, &lines, true),
                }
            } else {
                let text: Vec<u16> = cps.iter().map(|&c| c as u16).collect();
                match &ds {
                    Some(d) => run_text16(d, &text[..], dir, &lines, false),
                    None => run_text16(&unicode_bidi::HardcodedBidiData, &text[..], dir, &lines, true),
                }
            };
            format!("T\t{}\t{}", id, body)
        }
        "V" => {
            // reorder_visual on a raw level vector, through all three entry points
            let lv: Vec<Level> = if f[2] == "-" { vec![] } else { f[2].split(',').map(|x| Level::new(x.parse().unwrap()).unwrap()).collect() };
            let a = guard(|| unicode_bidi::BidiInfo::reorder_visual(&lv));
            let b = guard(|| unicode_bidi::ParagraphBidiInfo::reorder_visual(&lv));
            let c = guard(|| unicode_bidi::utf16::BidiInfo::reorder_visual(&lv));
            let d = guard(|| unicode_bidi::utf16::ParagraphBidiInfo::reorder_visual(&lv));
            let same = a == b && b == c && c == d;
            format!("V\t{}\trv={}\tsame={}", f[1], or_p(a.map(|v| usizes_s(&v))), same as u8)
        }
        "I" => {
            // Utf16CharIter under a program of next (f) / next_back (b) calls
            use unicode_bidi::TextSource;
            let units: Vec<u16> = parse_hex_list(f[2]).iter().map(|&c| c as u16).collect();
            let ops = f[3];
            let r = guard(|| {
                let mut it = units[..].chars();
                let mut outs = Vec::new();
                for op in ops.chars() {
                    let x = if op == 'f' { it.next() } else { it.next_back() };
                    outs.push(match x {
                        Some(c) => format!("{:x}", c as u32),
                        None => "N".to_string(),
                    });
                }
                outs.join(",")
            });
            format!("I\t{}\tout={}", f[1], or_p(r))
        }
        "S" => {
            // the TextSource methods
            use unicode_bidi::TextSource;
            let cps = parse_hex_list(f[3]);
            if f[2] == "16" {
                let units: Vec<u16> = cps.iter().map(|&c| c as u16).collect();
                let t = &units[..];
                let n = t.len();
                let ca = guard(|| (0..n + 2).map(|i| match t.char_at(i) { Some((c, l)) => format!("{:x}:{}", c as u32, l), None => "N".into() }).collect::<Vec<String>>().join(","));
                let ci = guard(|| t.char_indices().map(|(i, c)| format!("{}:{:x}", i, c as u32)).collect::<Vec<String>>().join(","));
                let il = guard(|| t.indices_lengths().map(|(i, l)| format!("{}:{}", i, l)).collect::<Vec<String>>().join(","));
                let ch = guard(|| t.chars().map(|c| format!("{:x}", c as u32)).collect::<Vec<String>>().join(","));
                let rv = guard(|| t.chars().rev().map(|c| format!("{:x}", c as u32)).collect::<Vec<String>>().join(","));
                let ln = guard(|| TextSource::len(t).to_string());
                format!("S\t{}\tlen={}\tca={}\tci={}\til={}\tch={}\trev={}", f[1], or_p(ln), or_p(ca), or_p(ci), or_p(il), or_p(ch), or_p(rv))
            } else {
                let text: String = cps.iter().map(|&c| char::from_u32(c).expect("scalar")).collect();
                let t: &str = &text;
                let n = t.len();
                let ca = guard(|| (0..n + 2).map(|i| match t.char_at(i) { Some((c, l)) => format!("{:x}:{}", c as u32, l), None => "N".into() }).collect::<Vec<String>>().join(","));
                let ci = guard(|| TextSource::char_indices(t).map(|(i, c)| format!("{}:{:x}", i, c as u32)).collect::<Vec<String>>().join(","));
                let il = guard(|| t.indices_lengths().map(|(i, l)| format!("{}:{}", i, l)).collect::<Vec<String>>().join(","));
                let ch = guard(|| TextSource::chars(t).map(|c| format!("{:x}", c as u32)).collect::<Vec<String>>().join(","));
                let rv = guard(|| TextSource::chars(t).rev().map(|c| format!("{:x}", c as u32)).collect::<Vec<String>>().join(","));
                let ln = guard(|| TextSource::len(t).to_string());
                format!("S\t{}\tlen={}\tca={}\tci={}\til={}\tch={}\trev={}", f[1], or_p(ln), or_p(ca), or_p(ci), or_p(il), or_p(ch), or_p(rv))
            }
        }
        _ => panic!("unknown case kind {}", f[0]),
    }
}

// ---------------------------------------------------------------- exhaustive dumps
fn dump_tables() {
    let out = std::io::stdout();
    let mut w = BufWriter::new(out.lock());
    writeln!(w, "version={}.{}.{}", unicode_bidi::UNICODE_VERSION.0, unicode_bidi::UNICODE_VERSION.1, unicode_bidi::UNICODE_VERSION.2).unwrap();
    writeln!(w, "max_explicit_depth={}", Level::max_explicit_depth()).unwrap();
    writeln!(w, "max_implicit_depth={}", Level::max_implicit_depth()).unwrap();
    // run-length encoding of bidi_class over every scalar value (surrogates excluded)
    let mut cur: Option<(u32, u32, BidiClass)> = None;
    for cp in 0u32..=0x10FFFF {
        if let Some(c) = char::from_u32(cp) {
            let k = unicode_bidi::bidi_class(c);
            let k2 = unicode_bidi::HardcodedBidiData.bidi_class(c);
            if k != k2 {
                writeln!(w, "MISMATCH free-fn vs trait at {:x}", cp).unwrap();
            }
            match cur {
                Some((lo, hi, ck)) if ck == k && hi + 1 == cp => cur = Some((lo, cp, ck)),
                Some((lo, hi, ck)) => {
                    writeln!(w, "C {:x} {:x} {}", lo, hi, class_name(ck)).unwrap();
                    let _ = (lo, hi);
                    cur = Some((cp, cp, k));
                }
                None => cur = Some((cp, cp, k)),
            }
        } else if let Some((lo, hi, ck)) = cur {
            writeln!(w, "C {:x} {:x} {}", lo, hi, class_name(ck)).unwrap();
            cur = None;
        }
    }
    if let Some((lo, hi, ck)) = cur {
        writeln!(w, "C {:x} {:x} {}", lo, hi, class_name(ck)).unwrap();
    }
    // every scalar with a bracket answer
    for cp in 0u32..=0x10FFFF {
        if let Some(c) = char::from_u32(cp) {
            if let Some(m) = unicode_bidi::HardcodedBidiData.bidi_matched_opening_bracket(c) {
                writeln!(w, "B {:x} {:x} {}", cp, m.opening as u32, m.is_open as u8).unwrap();
                // the pairing logic relies on every bracket having class ON (both public accessors)
                use unicode_bidi::BidiDataSource;
                writeln!(w, "BC {:x} {} {}", cp, class_name(unicode_bidi::bidi_class(c)), class_name(unicode_bidi::HardcodedBidiData.bidi_class(c))).unwrap();
            }
        }
    }
    // format_chars constants
    use unicode_bidi::format_chars as fc;
    for (n, c) in [("ALM", fc::ALM), ("LRM", fc::LRM), ("RLM", fc::RLM), ("LRI", fc::LRI), ("RLI", fc::RLI), ("FSI", fc::FSI), ("PDI", fc::PDI), ("LRE", fc::LRE), ("RLE", fc::RLE), ("PDF", fc::PDF), ("LRO", fc::LRO), ("RLO", fc::RLO)] {
        writeln!(w, "F {} {:x} {}", n, c as u32, class_name(unicode_bidi::bidi_class(c))).unwrap();
    }
}

fn res_level(r: Result<Level, unicode_bidi::level::Error>) -> String {
    match r {
        Ok(l) => l.number().to_string(),
        Err(_) => "E".into(),
    }
}

fn dump_levels() {
    let out = std::io::stdout();
    let mut w = BufWriter::new(out.lock());
    let v: Vec<String> = (0u16..256).map(|n| res_level(Level::new(n as u8))).collect();
    writeln!(w, "new\t{}", v.join(",")).unwrap();
    let v: Vec<String> = (0u16..256).map(|n| res_level(Level::new_explicit(n as u8))).collect();
    writeln!(w, "new_explicit\t{}", v.join(",")).unwrap();
    let v: Vec<String> = (0u16..256).map(|n| or_p(guard(|| Level::from(n as u8).number().to_string()))).collect();
    writeln!(w, "from_u8\t{}", v.join(",")).unwrap();
    for l in 0u8..=126 {
        let lv = Level::new(l).unwrap();
        // mutators: result and the value left in self
        let f = |name: &str, op: &dyn Fn(&mut Level, u8) -> Result<(), unicode_bidi::level::Error>, w: &mut dyn Write| {
            let v: Vec<String> = (0u16..256).map(|a| {
                let mut x = lv;
                or_p(guard(|| {
                    let r = op(&mut x, a as u8);
                    format!("{}{}", if r.is_ok() { "" } else { "E" }, x.number())
                }))
            }).collect();
            writeln!(w, "{}\t{}\t{}", name, l, v.join(",")).unwrap();
        };
        f("raise", &|x, a| x.raise(a), &mut w);
        f("raise_explicit", &|x, a| x.raise_explicit(a), &mut w);
        f("lower", &|x, a| x.lower(a), &mut w);
        writeln!(w, "unary\t{}\tnext_ltr={}\tnext_rtl={}\tlowest_ge_rtl={}\tis_ltr={}\tis_rtl={}\tnumber={}\tu8={}\tclass={}\teq_str={}",
            l,
            or_p(guard(|| res_level(lv.new_explicit_next_ltr()))),
            or_p(guard(|| res_level(lv.new_explicit_next_rtl()))),
            or_p(guard(|| res_level(lv.new_lowest_ge_rtl()))),
            lv.is_ltr() as u8, lv.is_rtl() as u8, lv.number(), u8::from(lv), class_name(lv.bidi_class()),
            (lv == l.to_string().as_str()) as u8).unwrap();
        // ordering against every other level
        let v: Vec<String> = (0u8..=126).map(|m| {
            let o = Level::new(m).unwrap();
            format!("{}{}{}", (lv < o) as u8, (lv == o) as u8, (lv > o) as u8)
        }).collect();
        writeln!(w, "ord\t{}\t{}", l, v.join(",")).unwrap();
    }
    // has_rtl on all slices over {0,1,2,125,126} up to length 5; Level::vec / from_slice_unchecked agree
    let alpha = [0u8, 1, 2, 125, 126];
    let mut cur: Vec<Vec<u8>> = vec![vec![]];
    for _len in 0..=5 {
        for s in &cur {
            let lv = Level::vec(s);
            let un = Level::from_slice_unchecked(s);
            writeln!(w, "has_rtl\t{}\t{}\t{}", csv(s, |x| x.to_string()), unicode_bidi::level::has_rtl(&lv) as u8, (un == &lv[..]) as u8).unwrap();
        }
        let mut nxt = Vec::new();
        for s in &cur {
            for a in alpha {
                let mut t = s.clone();
                t.push(a);
                nxt.push(t);
            }
        }
        cur = nxt;
    }
    // has_rtl on long slices (counters of any width must not wrap): n copies of a level, optionally one odd at the end
    for n in [127usize, 128, 129, 255, 256, 257, 511, 512, 513, 1024, 65535, 65536, 65537] {
        for (pat, base, last) in [("odd", 1u8, 1u8), ("odd3", 3, 3), ("even", 0, 0), ("even+odd", 2, 125), ("max", 126, 126)] {
            let mut v = vec![base; n];
            v[n - 1] = last;
            let lv = Level::vec(&v);
            writeln!(w, "has_rtl_long\t{}\t{}\t{}", n, pat, or_p(guard(|| (unicode_bidi::level::has_rtl(&lv) as u8).to_string()))).unwrap();
        }
    }
    writeln!(w, "consts\tltr={}\trtl={}\tLTR_LEVEL={}\tRTL_LEVEL={}\tmax_explicit={}\tmax_implicit={}",
        Level::ltr().number(), Level::rtl().number(), unicode_bidi::LTR_LEVEL.number(), unicode_bidi::RTL_LEVEL.number(),
        Level::max_explicit_depth(), Level::max_implicit_depth()).unwrap();
}

#[cfg(feature = "ub-serde")]
fn dump_serde() {
    for l in 0u8..=126 {
        let lv = Level::new(l).unwrap();
        let s = serde_json::to_string(&lv).unwrap();
        let back: Level = serde_json::from_str(&s).unwrap();
        println!("serde\t{}\t{}\t{}", l, s, (back == lv) as u8);
    }
}
#[cfg(not(feature = "ub-serde"))]
fn dump_serde() {
    println!("serde\tunavailable");
}

/// Bounded-exhaustive tie: `enum <spec> <shard> <nshards>`.  Each spec line `E <maxlen> <dirs> <cp,cp,...>` stands
/// for EVERY string of length 1..=maxlen over the listed characters, under the base directions listed in <dirs>
/// (a = auto, 0 = LTR, 1 = RTL).  One output line per (string, direction): the paragraph levels and the UTF-8 per-byte levels
/// of BidiInfo, or PANIC.  The OCaml driver enumerates the same strings in the same order and compares.
fn enum_levels(spec: &str, shard: usize, nshards: usize) {
    let out = std::io::stdout();
    let mut w = BufWriter::with_capacity(1 << 20, out.lock());
    let text = std::fs::read_to_string(spec).expect("spec file");
    let mut counter: usize = 0;
    for line in text.lines() {
        let f: Vec<&str> = line.split_whitespace().collect();
        if f.len() != 4 || f[0] != "E" { continue; }
        let maxlen: usize = f[1].parse().unwrap();
        let dirs: Vec<char> = f[2].chars().collect();
        // an alphabet entry is a character or a `+`-joined token of several characters (e.g. LRI a PDI)
        let alpha: Vec<String> = f[3].split(',').map(|tok| tok.split('+').map(|h| char::from_u32(u32::from_str_radix(h, 16).unwrap()).unwrap()).collect::<String>()).collect();
        let n = alpha.len();
        for len in 1..=maxlen {
            let total = n.pow(len as u32);
            for code in 0..total {
                counter += 1;
                if counter % nshards != shard { continue; }
                let mut c = code;
                let mut s = String::new();
                for _ in 0..len { s.push_str(&alpha[c % n]); c /= n; }
                for d in &dirs {
                    let lvl = match d { 'a' => None, '0' => Some(Level::ltr()), _ => Some(Level::rtl()) };
                    let r = guard(|| {
                        let bi = unicode_bidi::BidiInfo::new(&s, lvl);
                        let mut o = String::with_capacity(2 * s.len() + 8);
                        for p in &bi.paragraphs { o.push_str(&format!("{:x}.", p.level.number())); }
                        o.push('|');
                        for l in &bi.levels { o.push_str(&format!("{:x}.", l.number())); }
                        o
                    });
                    writeln!(w, "{}", r.unwrap_or_else(|| "PANIC".to_string())).unwrap();
                }
            }
        }
    }
}

fn main() {
    std::panic::set_hook(Box::new(|_| {}));
    let args: Vec<String> = std::env::args().collect();
    match args.get(1).map(|s| s.as_str()) {
        Some("gen") => gen::main(&args[2..]),
        Some("run") => {
            let f = std::fs::File::open(&args[2]).expect("case file");
            let out = std::io::stdout();
            let mut w = BufWriter::with_capacity(1 << 20, out.lock());
            for line in std::io::BufReader::new(f).lines() {
                let line = line.unwrap();
                if line.is_empty() || line.starts_with('#') {
                    continue;
                }
                let r = run_case(&line);
                writeln!(w, "{}", r).unwrap();
            }
        }
        Some("enum") => enum_levels(&args[2], args[3].parse().unwrap(), args[4].parse().unwrap()),
        Some("tables") => dump_tables(),
        Some("levels") => dump_levels(),
        Some("serde") => dump_serde(),
        _ => {
            eprintln!("usage: bidi-harness gen|run|tables|levels|serde");
            std::process::exit(2);
        }
    }
}
