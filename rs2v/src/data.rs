//! Data part of the translator: tables, constants, format characters.
use std::collections::BTreeMap;
use std::fs;
use std::path::Path;
use syn::visit::Visit;
use syn::{BinOp, Expr, Item, Lit};

#[derive(Default)]
pub struct Report {
    pub translated: Vec<(String, String)>, // (rust name, coq name)
    pub skipped: Vec<(String, String)>,    // (rust name, reason)
    pub fatal: Vec<String>,
}

fn jstr(s: &str) -> String {
    let mut o = String::from("\"");
    for c in s.chars() {
        match c {
            '"' => o.push_str("\\\""),
            '\\' => o.push_str("\\\\"),
            '\n' => o.push_str("\\n"),
            c if (c as u32) < 0x20 => o.push_str(&format!("\\u{:04x}", c as u32)),
            c => o.push(c),
        }
    }
    o.push('"');
    o
}

impl Report {
    pub fn to_json(&self) -> String {
        let t: Vec<String> =
            self.translated.iter().map(|(a, b)| format!("[{}, {}]", jstr(a), jstr(b))).collect();
        let s: Vec<String> =
            self.skipped.iter().map(|(a, b)| format!("[{}, {}]", jstr(a), jstr(b))).collect();
        let f: Vec<String> = self.fatal.iter().map(|a| jstr(a)).collect();
        format!(
            "{{\n \"translated\": [{}],\n \"skipped\": [{}],\n \"fatal\": [{}]\n}}\n",
            t.join(", "),
            s.join(", "),
            f.join(", ")
        )
    }
}

pub const CLASSES: [&str; 23] = [
    "AL", "AN", "B", "BN", "CS", "EN", "ES", "ET", "FSI", "L", "LRE", "LRI", "LRO", "NSM", "ON", "PDF",
    "PDI", "R", "RLE", "RLI", "RLO", "S", "WS",
];

pub fn coq_class(c: &str) -> Option<&'static str> {
    CLASSES.iter().find(|x| **x == c).map(|x| if *x == "S" { "SS" } else { *x })
}

pub fn parse(repo: &Path, rel: &str) -> Result<syn::File, String> {
    let p = repo.join(rel);
    let s = fs::read_to_string(&p).map_err(|e| format!("{}: {}", p.display(), e))?;
    syn::parse_file(&s).map_err(|e| format!("{}: {}", rel, e))
}

fn strip(e: &Expr) -> &Expr {
    match e {
        Expr::Paren(p) => strip(&p.expr),
        Expr::Group(g) => strip(&g.expr),
        Expr::Reference(r) => strip(&r.expr),
        _ => e,
    }
}

fn char_lit(e: &Expr) -> Result<u32, String> {
    match strip(e) {
        Expr::Lit(l) => match &l.lit {
            Lit::Char(c) => Ok(c.value() as u32),
            _ => Err("expected a char literal".into()),
        },
        _ => Err("expected a char literal".into()),
    }
}

fn path_ident(e: &Expr) -> Option<String> {
    match strip(e) {
        Expr::Path(p) => p.path.segments.last().map(|s| s.ident.to_string()),
        _ => None,
    }
}

fn const_item<'a>(f: &'a syn::File, name: &str) -> Option<&'a syn::ItemConst> {
    f.items.iter().find_map(|it| match it {
        Item::Const(c) if c.ident == name => Some(c),
        _ => None,
    })
}

fn array_elems(e: &Expr) -> Result<Vec<&Expr>, String> {
    match strip(e) {
        Expr::Array(a) => Ok(a.elems.iter().collect()),
        _ => Err("expected `&[ ... ]`".into()),
    }
}

pub fn tables(repo: &Path) -> Result<String, String> {
    let f = parse(repo, "src/char_data/tables.rs")?;
    // enum BidiClass: the Coq type [bclass] (Base.v) is fixed; the source must declare the same variants
    let en = f
        .items
        .iter()
        .find_map(|it| match it {
            Item::Enum(e) if e.ident == "BidiClass" => Some(e),
            _ => None,
        })
        .ok_or("enum BidiClass not found")?;
    let vars: Vec<String> = en.variants.iter().map(|v| v.ident.to_string()).collect();
    if vars != CLASSES {
        return Err(format!("enum BidiClass changed: {:?}", vars));
    }
    let ver = const_item(&f, "UNICODE_VERSION").ok_or("UNICODE_VERSION not found")?;
    let ver: Vec<u64> = match strip(&ver.expr) {
        Expr::Tuple(t) => t.elems.iter().map(|e| int_eval(e, &BTreeMap::new())).collect::<Result<_, _>>()?,
        _ => return Err("UNICODE_VERSION is not a tuple".into()),
    };
    if ver.len() != 3 {
        return Err("UNICODE_VERSION is not a triple".into());
    }
    let ct = const_item(&f, "bidi_class_table").ok_or("bidi_class_table not found")?;
    let mut rows = vec![];
    for e in array_elems(&ct.expr)? {
        match strip(e) {
            Expr::Tuple(t) if t.elems.len() == 3 => {
                let lo = char_lit(&t.elems[0])?;
                let hi = char_lit(&t.elems[1])?;
                let c = path_ident(&t.elems[2]).ok_or("class expected")?;
                let c = coq_class(&c).ok_or(format!("unknown class {}", c))?;
                rows.push(format!("  ({}, {}, {})", lo, hi, c));
            }
            _ => return Err("bidi_class_table: expected (char, char, class)".into()),
        }
    }
    let pt = const_item(&f, "bidi_pairs_table").ok_or("bidi_pairs_table not found")?;
    let mut pairs = vec![];
    for e in array_elems(&pt.expr)? {
        match strip(e) {
            Expr::Tuple(t) if t.elems.len() == 3 => {
                let o = char_lit(&t.elems[0])?;
                let c = char_lit(&t.elems[1])?;
                let k = match strip(&t.elems[2]) {
                    Expr::Path(_) if path_ident(&t.elems[2]).as_deref() == Some("None") => "None".to_string(),
                    Expr::Call(call) if path_ident(&call.func).as_deref() == Some("Some") && call.args.len() == 1 => {
                        format!("Some {}", char_lit(&call.args[0])?)
                    }
                    _ => return Err("bidi_pairs_table: expected None or Some(char)".into()),
                };
                pairs.push(format!("  ({}, {}, {})", o, c, k));
            }
            _ => return Err("bidi_pairs_table: expected (char, char, Option<char>)".into()),
        }
    }
    let mut s = String::new();
    s.push_str("(* GENERATED by rs2v from src/char_data/tables.rs of the working tree — do not edit *)\n");
    s.push_str("From BidiVerif Require Import Base.\nLocal Open Scope N_scope.\n");
    s.push_str(&format!("Definition unicode_version : N * N * N := ({}, {}, {}).\n", ver[0], ver[1], ver[2]));
    s.push_str("Definition bidi_class_table : list (N * N * bclass) := [\n");
    s.push_str(&rows.join(";\n"));
    s.push_str("].\nDefinition bidi_pairs_table : list (N * N * option N) := [\n");
    s.push_str(&pairs.join(";\n"));
    s.push_str("].\n");
    Ok(s)
}

/// const-evaluate an integer expression over previously defined constants
pub fn int_eval(e: &Expr, env: &BTreeMap<String, u64>) -> Result<u64, String> {
    match strip(e) {
        Expr::Lit(l) => match &l.lit {
            Lit::Int(i) => i.base10_parse::<u64>().map_err(|e| e.to_string()),
            _ => Err("integer literal expected".into()),
        },
        Expr::Path(_) => {
            let n = path_ident(e).unwrap_or_default();
            env.get(&n).copied().ok_or(format!("unknown constant {}", n))
        }
        Expr::Cast(c) => int_eval(&c.expr, env),
        Expr::Binary(b) => {
            let x = int_eval(&b.left, env)?;
            let y = int_eval(&b.right, env)?;
            match b.op {
                BinOp::Add(_) => x.checked_add(y).ok_or("overflow".into()),
                BinOp::Sub(_) => x.checked_sub(y).ok_or("underflow".into()),
                BinOp::Mul(_) => x.checked_mul(y).ok_or("overflow".into()),
                BinOp::Div(_) if y != 0 => Ok(x / y),
                BinOp::Shl(_) if y < 63 => Ok(x << y),
                _ => Err("unsupported operator in constant".into()),
            }
        }
        _ => Err("unsupported constant expression".into()),
    }
}

pub fn int_consts(f: &syn::File) -> BTreeMap<String, u64> {
    let mut env = BTreeMap::new();
    for it in &f.items {
        if let Item::Const(c) = it {
            if let Ok(v) = int_eval(&c.expr, &env) {
                env.insert(c.ident.to_string(), v);
            }
        }
    }
    env
}

struct LimitFinder {
    found: Vec<u64>,
}
impl<'ast> Visit<'ast> for LimitFinder {
    fn visit_expr_if(&mut self, i: &'ast syn::ExprIf) {
        if let Expr::Binary(b) = strip(&i.cond) {
            if let Expr::MethodCall(m) = strip(&b.left) {
                if m.method == "len" && path_ident(&m.receiver).as_deref() == Some("stack") {
                    if let Ok(n) = int_eval(&b.right, &BTreeMap::new()) {
                        match b.op {
                            BinOp::Ge(_) => self.found.push(n),
                            BinOp::Gt(_) => self.found.push(n + 1),
                            _ => self.found.push(u64::MAX),
                        }
                    }
                }
            }
        }
        syn::visit::visit_expr_if(self, i);
    }
}

pub fn consts(repo: &Path) -> Result<String, String> {
    let lvl = parse(repo, "src/level.rs")?;
    let env = int_consts(&lvl);
    let get = |n: &str| env.get(n).copied().ok_or(format!("level.rs: constant {} not found / not evaluable", n));
    let max_explicit = get("MAX_EXPLICIT_DEPTH")?;
    let max_implicit = get("MAX_IMPLICIT_DEPTH")?;
    if max_implicit > 254 {
        return Err("implausible MAX_IMPLICIT_DEPTH".into());
    }
    // BD16 stack limit: the one `if stack.len() >= N` / `> N` inside identify_bracket_pairs
    let imp = parse(repo, "src/implicit.rs")?;
    let mut lf = LimitFinder { found: vec![] };
    for it in &imp.items {
        if let Item::Fn(f) = it {
            if f.sig.ident == "identify_bracket_pairs" {
                lf.visit_item_fn(f);
            }
        }
    }
    if lf.found.len() != 1 || lf.found[0] > 100000 {
        return Err(format!("bracket stack limit: expected exactly one `if stack.len() >= N` in identify_bracket_pairs, found {:?}", lf.found));
    }
    let fc = parse(repo, "src/format_chars.rs")?;
    let mut fmt = vec![];
    for it in &fc.items {
        if let Item::Const(c) = it {
            if let Ok(v) = char_lit(&c.expr) {
                fmt.push((c.ident.to_string(), v));
            }
        }
    }
    let mut names: Vec<&str> = fmt.iter().map(|x| x.0.as_str()).collect();
    names.sort();
    let mut want = vec!["ALM", "LRM", "RLM", "LRI", "RLI", "FSI", "PDI", "LRE", "RLE", "PDF", "LRO", "RLO"];
    want.sort();
    if names != want {
        return Err(format!("format_chars changed: {:?}", names));
    }
    let mut s = String::new();
    s.push_str("(* GENERATED by rs2v from src/{level,implicit,format_chars}.rs of the working tree — do not edit *)\n");
    s.push_str("From Coq Require Import NArith.\n");
    s.push_str(&format!("Definition max_depth : nat := {}.\n", max_explicit));
    s.push_str(&format!("Definition max_implicit_depth_src : nat := {}.\n", max_implicit));
    s.push_str(&format!("Definition bracket_limit : nat := {}.\n", lf.found[0]));
    for n in ["ALM", "LRM", "RLM", "LRI", "RLI", "FSI", "PDI", "LRE", "RLE", "PDF", "LRO", "RLO"] {
        let v = fmt.iter().find(|x| x.0 == n).unwrap().1;
        s.push_str(&format!("Definition fc_{} : N := {}%N.\n", n, v));
    }
    Ok(s)
}
