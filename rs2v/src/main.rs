//! rs2v — the source translator of the verification framework (DESIGN 4.6).
//!
//!   rs2v <repo> <outdir>
//!
//! Parses the *current working tree* of the crate with `syn` (a real Rust parser, so formatting,
//! comments and attribute noise cannot confuse it) and writes
//!   TablesGen.v   the enum, both data tables and the declared Unicode version  (char_data/tables.rs)
//!   ConstsGen.v   MAX_DEPTH (const-evaluated), the BD16 stack limit, the format_chars constants
//!   SrcGen.v      Gallina translations of the small pure functions of level.rs, char_data/mod.rs,
//!                 prepare.rs and implicit.rs (see `data::FUNCS`), in the panic monad of Base.v
//!   rs2v_report.json   which functions were translated, which were not and why
//! Anything outside the supported subset is reported, never guessed.  Part of the trusted base.
mod data;
mod expr;

use std::fs;
use std::path::Path;

fn main() {
    let args: Vec<String> = std::env::args().collect();
    if args.len() != 3 {
        eprintln!("usage: rs2v <repo> <outdir>");
        std::process::exit(2);
    }
    let repo = Path::new(&args[1]);
    let out = Path::new(&args[2]);
    let mut report = data::Report::default();
    match data::tables(repo) {
        Ok(s) => fs::write(out.join("TablesGen.v"), s).unwrap(),
        Err(e) => report.fatal.push(format!("tables: {}", e)),
    }
    match data::consts(repo) {
        Ok(s) => fs::write(out.join("ConstsGen.v"), s).unwrap(),
        Err(e) => report.fatal.push(format!("consts: {}", e)),
    }
    let src = expr::translate_all(repo, &mut report);
    fs::write(out.join("SrcGen.v"), src).unwrap();
    fs::write(out.join("rs2v_report.json"), report.to_json()).unwrap();
    for f in &report.fatal {
        eprintln!("rs2v: {}", f);
    }
    println!(
        "rs2v: {} functions translated, {} not translated, {} fatal",
        report.translated.len(),
        report.skipped.len(),
        report.fatal.len()
    );
    std::process::exit(if report.fatal.is_empty() { 0 } else { 2 });
}
