//! Code part of the translator: a subset of Rust -> Gallina in the panic monad `res` of Base.v.
//!
//! Value encoding
//!   u8                       -> nat, every arithmetic operation checked against 255 (overflow = Panic,
//!                               which is what a debug build does; a theorem that no Panic is reachable
//!                               makes debug and release coincide)
//!   usize, i32, untyped ints -> nat; subtraction below zero = Panic; overflow of the machine word is
//!                               NOT modelled (it needs more than 2^31 characters; stated in the trusted base)
//!   char                     -> N (scalar value)
//!   bool -> bool; `Level` (repr(transparent) newtype over u8) -> nat; BidiClass -> bclass;
//!   Option<T> -> option T; Result<T,E> -> rresult T E; () -> unit; Ordering -> comparison;
//!   slices / Vec -> list; unit-like enums of the file -> an Inductive with constructors Enum_Variant.
//! Functions
//!   every translated function returns in `res`.  A `&mut self` method of Level returns
//!   `res (nat * R)` (new self.0, result).  A function with `&mut [T]` parameters returns
//!   `res (R * (p1 * ... * pn))`: the result and the final contents of those parameters.
//!   A function generic over `T: TextSource` takes a record `ts : rs_text_source` and its text as `list N`;
//!   a `D: BidiDataSource` parameter is a record `rs_data_source`.
//! Two modes
//!   expression mode: bodies made of let / if / match with `return` only in tail position (level.rs ...);
//!   flow mode: bodies with `let mut`, assignments, `for` loops, early `return` / `break` / `continue`
//!   (lib.rs helpers).  Statement lists become computations of `flow` values (Go state | Brk | Cnt | Ret).
use crate::data::{coq_class, int_consts, parse, Report};
use std::collections::{BTreeMap, BTreeSet};
use std::path::Path;
use syn::visit::Visit;
use syn::{BinOp, Expr, FnArg, ImplItem, Item, Lit, Pat, Stmt, Type, UnOp};

type R<T> = Result<T, String>;

#[derive(Clone, Debug, PartialEq)]
enum Ty {
    U8,
    U16,  // UTF-16 code unit: N (binary), like char
    Word, // usize, i32, untyped integer
    Char,
    Bool,
    Level,
    Class,
    Unit,
    Opt(Box<Ty>),
    Slice(Box<Ty>),
    Struct(String), // a struct of the file with named fields (iterator state)
    Rec(String),    // a named-field struct used as a value (translated to a Coq Record)
    Enum(String),   // a unit-like enum of the file
    Res(Box<Ty>),   // Result<T, _>
    Range,          // Range<usize> as a value: (start, end)
    Tup(Vec<Ty>),   // tuple type
    Str,    // &str / String / Cow<str>: the list of its scalar values, indexed by UTF-8 byte offsets (RsPrelude.rs_str_slice)
    Text,   // &T where T: TextSource
    Source, // &D where D: BidiDataSource
    Other,
    Unknown,
}

impl Ty {
    fn is_nat(&self) -> bool {
        matches!(self, Ty::U8 | Ty::Word | Ty::Level)
    }
}

fn generic_kind(g: &syn::Generics, name: &str) -> Option<Ty> {
    for p in &g.params {
        if let syn::GenericParam::Type(tp) = p {
            if tp.ident == name {
                for b in &tp.bounds {
                    if let syn::TypeParamBound::Trait(t) = b {
                        match last_ident(&t.path).as_str() {
                            "TextSource" => return Some(Ty::Text),
                            "BidiDataSource" => return Some(Ty::Source),
                            _ => {}
                        }
                    }
                }
            }
        }
    }
    None
}

fn ty_of_type(t: &Type, g: &syn::Generics) -> Ty {
    match t {
        Type::Reference(r) => ty_of_type(&r.elem, g),
        Type::Paren(p) => ty_of_type(&p.elem, g),
        Type::Tuple(t) if t.elems.is_empty() => Ty::Unit,
        Type::Tuple(t) => Ty::Tup(t.elems.iter().map(|x| ty_of_type(x, g)).collect()),
        Type::Slice(s) => Ty::Slice(Box::new(ty_of_type(&s.elem, g))),
        Type::Path(p) => {
            let seg = p.path.segments.last().unwrap();
            let n = seg.ident.to_string();
            match n.as_str() {
                "u8" => Ty::U8,
                "u16" => Ty::U16,
                "usize" | "i32" | "u32" | "u64" | "isize" => Ty::Word,
                "char" => Ty::Char,
                "bool" => Ty::Bool,
                "Level" | "Self" => Ty::Level,
                "BidiClass" => Ty::Class,
                "Range" | "LevelRun" => Ty::Range,
                "str" | "String" => Ty::Str,
                "Cow" => Ty::Str,
                "Result" => {
                    if let syn::PathArguments::AngleBracketed(a) = &seg.arguments {
                        if let Some(syn::GenericArgument::Type(t)) = a.args.first() {
                            return Ty::Res(Box::new(ty_of_type(t, g)));
                        }
                    }
                    Ty::Other
                }
                "Option" => {
                    if let syn::PathArguments::AngleBracketed(a) = &seg.arguments {
                        if let Some(syn::GenericArgument::Type(t)) = a.args.first() {
                            return Ty::Opt(Box::new(ty_of_type(t, g)));
                        }
                    }
                    Ty::Other
                }
                "Vec" => {
                    if let syn::PathArguments::AngleBracketed(a) = &seg.arguments {
                        if let Some(syn::GenericArgument::Type(t)) = a.args.first() {
                            return Ty::Slice(Box::new(ty_of_type(t, g)));
                        }
                    }
                    Ty::Slice(Box::new(Ty::Other))
                }
                "LevelRunVec" | "SmallVec" => Ty::Slice(Box::new(Ty::Other)),
                _ => generic_kind(g, &n).unwrap_or(Ty::Other),
            }
        }
        _ => Ty::Other,
    }
}

#[derive(Clone)]
pub struct FnInfo {
    key: (Option<String>, String), // (Self type / trait-impl label, fn name)
    coq: String,
    rust: String,
    has_self: bool,
    self_ty: Ty,
    mut_self: bool,
    params: Vec<(String, Ty, bool)>, // name, type, is `&mut` parameter
    ret: Ty,
    item: syn::Block,
}

struct FileCtx {
    stem: String,
    int_consts: BTreeMap<String, u64>,
    other_consts: BTreeMap<String, Expr>, // e.g. LTR_LEVEL = Level(0)
    const_types: BTreeMap<String, Ty>,
    enums: BTreeMap<String, Vec<String>>, // unit-like enums declared in the file
    fns: Vec<FnInfo>,
    structs: BTreeMap<String, Vec<(String, Ty)>>, // named-field structs of the file
}

struct Tr<'a> {
    file: &'a FileCtx,
    done: &'a BTreeMap<(Option<String>, String), String>, // translated callees -> coq name
    all_done: &'a BTreeMap<(String, Option<String>, String), (String, Ty)>, // other files: (stem, label, fn) -> coq name, ret type
    f: &'a FnInfo,
    locals: Vec<(String, Ty, bool)>, // name, type, mutable
    fresh: u32,
    loops: Vec<Vec<String>>, // state variables of the enclosing loops (innermost last)
    defaulted: BTreeSet<String>, // integer locals whose type was not written and defaulted to a machine word
    in_const: bool,          // inside a constant initialiser: evaluated by the compiler, overflow impossible at run time
    uses_fuel: bool,         // the body contains a `while`: the definition takes a `fuel` argument
}

fn last_ident(p: &syn::Path) -> String {
    p.segments.last().map(|s| s.ident.to_string()).unwrap_or_default()
}

fn strip(e: &Expr) -> &Expr {
    match e {
        Expr::Paren(p) => strip(&p.expr),
        Expr::Group(g) => strip(&g.expr),
        Expr::Reference(r) => strip(&r.expr),
        Expr::Unary(u) if matches!(u.op, UnOp::Deref(_)) => strip(&u.expr),
        _ => e,
    }
}

fn is_self(e: &Expr) -> bool {
    matches!(strip(e), Expr::Path(p) if p.path.is_ident("self"))
}

fn local_name(e: &Expr) -> Option<String> {
    match strip(e) {
        Expr::Path(p) if p.path.segments.len() == 1 => Some(last_ident(&p.path)),
        // a named field of `self` (iterator state) is a variable of the translation
        Expr::Field(f) if is_self(&f.base) => match &f.member {
            syn::Member::Named(i) => Some(format!("self_{}", i)),
            _ => None,
        },
        _ => None,
    }
}

type Binds = Vec<(String, String)>;

impl<'a> Tr<'a> {
    fn fresh(&mut self, base: &str) -> String {
        self.fresh += 1;
        format!("{}_{}", base, self.fresh)
    }

    fn lookup_local(&self, n: &str) -> Option<Ty> {
        self.locals.iter().rev().find(|x| x.0 == n).map(|x| x.1.clone())
    }

    fn is_mut_local(&self, n: &str) -> bool {
        self.locals.iter().rev().find(|x| x.0 == n).map(|x| x.2).unwrap_or(false)
    }

    // ---------------------------------------------------------------- types (best effort)
    fn infer(&self, e: &Expr) -> Ty {
        match strip(e) {
            Expr::Lit(l) => match &l.lit {
                Lit::Int(i) => match i.suffix() {
                    "u8" => Ty::U8,
                    "usize" | "i32" | "u32" => Ty::Word,
                    "" => Ty::Unknown,
                    _ => Ty::Other,
                },
                Lit::Bool(_) => Ty::Bool,
                Lit::Char(_) => Ty::Char,
                _ => Ty::Other,
            },
            Expr::Path(p) => {
                let n = last_ident(&p.path);
                if p.path.is_ident("self") {
                    return self.f.self_ty.clone();
                }
                if let Some(t) = self.lookup_local(&n) {
                    return t;
                }
                if let Some(t) = self.file.const_types.get(&n) {
                    if *t != Ty::Other {
                        return t.clone();
                    }
                }
                if self.file.int_consts.contains_key(&n) {
                    return Ty::U8;
                }
                if coq_class(&n).is_some() {
                    return Ty::Class;
                }
                if n == "None" {
                    return Ty::Opt(Box::new(Ty::Unknown));
                }
                if n == "REPLACEMENT_CHARACTER" || (p.path.segments.len() == 2 && p.path.segments[0].ident == "chars") {
                    return Ty::Char;
                }
                if n == "LTR_LEVEL" || n == "RTL_LEVEL" {
                    return Ty::Level;
                }
                if self.file.stem != "level" && (n == "MAX_EXPLICIT_DEPTH" || n == "MAX_IMPLICIT_DEPTH") {
                    return Ty::U8;
                }
                for (en, vars) in &self.file.enums {
                    if vars.contains(&n) && p.path.segments.len() >= 2 && p.path.segments[p.path.segments.len() - 2].ident == en.as_str() {
                        return Ty::Enum(en.clone());
                    }
                }
                Ty::Unknown
            }
            Expr::Macro(m) if last_ident(&m.mac.path) == "matches" => Ty::Bool,
            Expr::Macro(m) if last_ident(&m.mac.path) == "vec" => {
                if let Ok(parsed) = syn::parse2::<VecArgs>(m.mac.tokens.clone()) {
                    if let Some(e0) = parsed.elems.first() {
                        return Ty::Slice(Box::new(self.infer(e0)));
                    }
                }
                Ty::Slice(Box::new(Ty::Unknown))
            }
            Expr::Struct(st) if self.file.structs.contains_key(&last_ident(&st.path)) => Ty::Rec(last_ident(&st.path)),
            Expr::Cast(c) => match (self.infer(&c.expr), ty_of_type(&c.ty, &syn::Generics::default())) {
                (Ty::U16, _) | (Ty::Char, _) => Ty::Char,
                (Ty::U8, Ty::Word) | (Ty::Level, Ty::Word) => Ty::Word,
                (t, _) => t,
            },
            Expr::Field(f) if local_name(e).map(|n| self.lookup_local(&n).is_some()).unwrap_or(false) && matches!(f.member, syn::Member::Named(_)) => {
                self.lookup_local(&local_name(e).unwrap()).unwrap()
            }
            Expr::Field(f) => {
                match (self.infer(&f.base), &f.member) {
                    (Ty::Level, _) => Ty::U8,
                    (Ty::Range, syn::Member::Named(_)) => Ty::Word,
                    (Ty::Rec(n), syn::Member::Named(fd)) => self.file.structs.get(&n).and_then(|fs| fs.iter().find(|x| fd == &x.0).map(|x| x.1.clone())).unwrap_or(Ty::Unknown),
                    _ => Ty::Unknown,
                }
            }
            Expr::Index(ix) => match self.infer(&ix.expr) {
                Ty::Str => Ty::Str,
                Ty::Slice(t) => {
                    if let Expr::Range(_) = strip(&ix.index) {
                        Ty::Slice(t)
                    } else {
                        *t
                    }
                }
                _ => Ty::Unknown,
            },
            Expr::Binary(b) => match b.op {
                BinOp::Add(_) | BinOp::Sub(_) | BinOp::Mul(_) | BinOp::Div(_) | BinOp::Rem(_) | BinOp::BitAnd(_)
                | BinOp::BitOr(_) | BinOp::BitXor(_) => {
                    let l = self.infer(&b.left);
                    if l != Ty::Unknown {
                        l
                    } else {
                        self.infer(&b.right)
                    }
                }
                _ => Ty::Bool,
            },
            Expr::Unary(u) => match u.op {
                UnOp::Not(_) => self.infer(&u.expr),
                _ => Ty::Unknown,
            },
            Expr::MethodCall(m) => {
                let name = m.method.to_string();
                match name.as_str() {
                    "is_none" | "is_some" | "is_ok" | "is_err" => return Ty::Bool,
                    "last" => {
                        if let Ty::Slice(t) = self.infer(&m.receiver) {
                            return Ty::Opt(t);
                        }
                    }
                    "unwrap" | "expect" => match self.infer(&m.receiver) {
                        Ty::Opt(t) | Ty::Res(t) => return *t,
                        _ => {}
                    },
                    "len_utf16" | "len_utf8" => return Ty::Word,
                    "into" => return self.infer(&m.receiver),
                    "next" => return Ty::Opt(Box::new(Ty::Other)),
                    "char_at" => return Ty::Opt(Box::new(Ty::Unknown)),
                    "bidi_class" if self.infer(&m.receiver) == Ty::Source => return Ty::Class,
                    "len" => return Ty::Word,
                    "iter" | "into_iter" | "copied" | "cloned" | "clone" | "take" | "skip" => return self.infer(&m.receiver),
                    "is_empty" => return Ty::Bool,
                    "chars" | "rev" if matches!(self.infer(&m.receiver), Ty::Str | Ty::Slice(_)) => {
                        return match self.infer(&m.receiver) {
                            Ty::Str => Ty::Slice(Box::new(Ty::Char)),
                            t => t,
                        };
                    }
                    "get" => {
                        if let Ty::Slice(t) = self.infer(&m.receiver) {
                            return Ty::Opt(t);
                        }
                    }
                    "collect" if matches!(strip(&m.receiver), Expr::Range(_)) => return Ty::Slice(Box::new(Ty::Word)),
                    "fold" if m.args.len() == 2 => return self.infer(&m.args[0]),
                    "enumerate" => {
                        if let Ty::Slice(t) = self.infer(&m.receiver) {
                            return Ty::Slice(Box::new(Ty::Tup(vec![Ty::Word, *t])));
                        }
                    }
                    _ => {}
                }
                if let Some(fi) = self.file.fns.iter().find(|f| f.has_self && f.key.1 == name) {
                    return fi.ret.clone();
                }
                if let Some(((_, _, _), (_, t))) = self.all_done.iter().find(|((_, l, n), _)| l.as_deref() == Some("Level") && *n == name) {
                    if self.infer(&m.receiver) == Ty::Level {
                        return t.clone();
                    }
                }
                Ty::Unknown
            }
            Expr::Call(c) => {
                if let Expr::Path(p) = strip(&c.func) {
                    let n = last_ident(&p.path);
                    if n == "Level" && p.path.segments.len() == 1 {
                        return Ty::Level;
                    }
                    if n == "Some" && c.args.len() == 1 {
                        return Ty::Opt(Box::new(self.infer(&c.args[0])));
                    }
                    if n == "char_len" {
                        return Ty::Word;
                    }
                    if n == "from_u32" {
                        return Ty::Opt(Box::new(Ty::Char));
                    }
                    if n == "from" && p.path.segments.len() == 2 && matches!(p.path.segments[0].ident.to_string().as_str(), "usize" | "u32" | "u64" | "i32" | "isize") {
                        return Ty::Word;
                    }
                    if (n == "new" || n == "with_capacity") && p.path.segments.len() == 2 && p.path.segments[0].ident == "Vec" {
                        return Ty::Slice(Box::new(Ty::Unknown));
                    }
                    if (n == "new" || n == "with_capacity") && p.path.segments.len() == 2 && p.path.segments[0].ident == "String" {
                        return Ty::Str;
                    }
                    if (n == "max" || n == "min") && c.args.len() == 2 {
                        return self.num_ty(&c.args[0], &c.args[1]);
                    }
                    if let Some((_, (_, t))) = self.all_done.iter().find(|((_, _, f), _)| *f == n) {
                        if self.file.fns.iter().all(|f| f.key.1 != n) {
                            return t.clone();
                        }
                    }
                    if let Some(fi) = self.file.fns.iter().find(|f| !f.has_self && f.key.1 == n) {
                        return fi.ret.clone();
                    }
                }
                Ty::Unknown
            }
            Expr::Range(_) => Ty::Range,
            Expr::Tuple(t) if !t.elems.is_empty() => Ty::Tup(t.elems.iter().map(|e| self.infer(e)).collect()),
            _ => Ty::Unknown,
        }
    }

    /// a local whose integer type was defaulted must not meet a u8 / Level / char operand: rustc would have
    /// inferred that narrower type for it, and its arithmetic would have to be checked accordingly
    fn check_mix(&self, a: &Expr, b: &Expr) -> R<()> {
        for (x, y) in [(a, b), (b, a)] {
            if let Some(n) = local_name(x) {
                if self.defaulted.contains(&n) && matches!(self.infer(y), Ty::U8 | Ty::Level | Ty::Char) {
                    return Err(format!("the integer type of `{}` is not written and it meets a narrower operand", n));
                }
            }
        }
        Ok(())
    }

    fn num_ty(&self, a: &Expr, b: &Expr) -> Ty {
        match (self.infer(a), self.infer(b)) {
            (Ty::Unknown, Ty::Unknown) => Ty::Word,
            (Ty::Unknown, t) | (t, Ty::Unknown) => t,
            (t, _) => t,
        }
    }

    // ---------------------------------------------------------------- expressions
    /// Translate [e] to a *pure* Coq term, pushing monadic bindings (name, computation) to [b].
    /// [hint]: the type an untyped integer literal should take.
    fn expr_h(&mut self, e: &Expr, hint: &Ty, b: &mut Binds) -> R<String> {
        if let Expr::Lit(l) = strip(e) {
            if let Lit::Int(i) = &l.lit {
                let v = i.base10_parse::<u64>().map_err(|e| e.to_string())?;
                let t = match self.infer(e) {
                    Ty::Unknown => hint.clone(),
                    t => t,
                };
                return Ok(if t == Ty::Char || t == Ty::U16 { format!("{}%N", v) } else { format!("{}%nat", v) });
            }
        }
        self.expr(e, b)
    }

    fn expr(&mut self, e: &Expr, b: &mut Binds) -> R<String> {
        match e {
            Expr::Paren(p) => self.expr(&p.expr, b),
            Expr::Group(g) => self.expr(&g.expr, b),
            Expr::Reference(r) => self.expr(&r.expr, b),
            Expr::Lit(l) => match &l.lit {
                Lit::Int(i) => Ok(format!("{}%nat", i.base10_parse::<u64>().map_err(|e| e.to_string())?)),
                Lit::Bool(x) => Ok(if x.value { "true".into() } else { "false".into() }),
                Lit::Char(c) => Ok(format!("{}%N", c.value() as u32)),
                _ => Err("unsupported literal".into()),
            },
            Expr::Path(p) => self.path(&p.path),
            Expr::Field(f) => {
                if let syn::Member::Unnamed(ix) = &f.member {
                    if self.infer(&f.base) == Ty::Level && ix.index == 0 {
                        return self.expr(&f.base, b);
                    }
                    let base = self.expr(&f.base, b)?;
                    return Ok(match ix.index {
                        0 => format!("(rs_t0 {})", base),
                        1 => format!("(rs_t1 {})", base),
                        2 => format!("(rs_t2 {})", base),
                        _ => return Err("tuple projection beyond .2".into()),
                    });
                }
                if let Some(n) = local_name(e) {
                    if self.lookup_local(&n).is_some() {
                        return Ok(coq_ident(&n));
                    }
                }
                if let (Ty::Range, syn::Member::Named(fd)) = (self.infer(&f.base), &f.member) {
                    let base = self.expr(&f.base, b)?;
                    return match fd.to_string().as_str() {
                        "start" => Ok(format!("(fst {})", base)),
                        "end" => Ok(format!("(snd {})", base)),
                        _ => Err("field of a Range other than start / end".into()),
                    };
                }
                if let (Ty::Rec(sn), syn::Member::Named(fd)) = (self.infer(&f.base), &f.member) {
                    let base = self.expr(&f.base, b)?;
                    return Ok(format!("({}_{} {})", sn, fd, base));
                }
                Err("named field access".into())
            }
            Expr::Unary(u) => match u.op {
                UnOp::Deref(_) => self.expr(&u.expr, b),
                UnOp::Not(_) => {
                    let t = self.infer(&u.expr);
                    let x = self.expr(&u.expr, b)?;
                    match t {
                        Ty::Bool => Ok(format!("(negb {})", x)),
                        Ty::U8 => Ok(format!("(rs_not8 {})", x)),
                        Ty::Unknown => Err("cannot type the operand of `!`".into()),
                        _ => Err("`!` on unsupported type".into()),
                    }
                }
                _ => Err("unsupported unary operator".into()),
            },
            Expr::Binary(bi) => self.binary(bi, b),
            Expr::Call(c) => self.call(c, b),
            Expr::MethodCall(m) => self.method(m, b),
            Expr::Macro(m) => self.mac(&m.mac, b),
            Expr::Tuple(t) if t.elems.is_empty() => Ok("tt".into()),
            Expr::Tuple(t) => {
                let mut xs = vec![];
                for e in &t.elems {
                    xs.push(self.expr(e, b)?);
                }
                Ok(format!("({})", xs.join(", ")))
            }
            Expr::Index(ix) if self.infer(&ix.expr) == Ty::Str => {
                // text[range]: a sub-string by byte offsets (panics off a character boundary or out of bounds)
                if self.infer(&ix.index) != Ty::Range {
                    return Err("indexing a str by something other than a Range value".into());
                }
                let t = self.expr(&ix.expr, b)?;
                let r = self.expr(&ix.index, b)?;
                let x = self.fresh("ss");
                b.push((x.clone(), format!("rs_str_slice {} {}", t, r)));
                Ok(x)
            }
            Expr::Index(ix) => {
                if let Expr::Range(r) = strip(&ix.index) {
                    // v[a..] : the tail of a slice (panics when a > len)
                    if let (Some(st), None, syn::RangeLimits::HalfOpen(_)) = (&r.start, &r.end, &r.limits) {
                        let v = self.expr(&ix.expr, b)?;
                        let a = self.expr_h(st, &Ty::Word, b)?;
                        let x = self.fresh("sl");
                        b.push((x.clone(), format!("rs_slice_from {} {}", v, a)));
                        return Ok(x);
                    }
                    return Err("slicing by a range in expression position".into());
                }
                let v = self.expr(&ix.expr, b)?;
                let i = self.expr(&ix.index, b)?;
                let x = self.fresh("ix");
                b.push((x.clone(), format!("rs_index {} {}", v, i)));
                Ok(x)
            }
            Expr::If(_) | Expr::Match(_) | Expr::Block(_) => {
                let c = self.tail(e, false)?;
                let x = self.fresh("v");
                b.push((x.clone(), c));
                Ok(x)
            }
            Expr::Range(r) if matches!(r.limits, syn::RangeLimits::HalfOpen(_)) => {
                // a..b as an iterator: evaluated once, before the loop
                let from = match &r.start {
                    Some(e) => self.expr_h(e, &Ty::Word, b)?,
                    None => return Err("range without a start".into()),
                };
                let to = match &r.end {
                    Some(e) => self.expr_h(e, &Ty::Word, b)?,
                    None => return Err("range without an end".into()),
                };
                Ok(format!("({}, {})", from, to))
            }
            Expr::Cast(c) => {
                // widening casts between unsigned integers / u16 -> u32 / char -> u32 keep the value
                match (self.infer(&c.expr), ty_of_type(&c.ty, &syn::Generics::default())) {
                    (Ty::U8, Ty::U8) | (Ty::U8, Ty::Word) | (Ty::Level, Ty::Word) | (Ty::U16, Ty::Word) | (Ty::U16, Ty::U16) | (Ty::Char, Ty::Word) | (Ty::Word, Ty::Word) | (Ty::Slice(_), _) => self.expr(&c.expr, b),
                    (a, t) => Err(format!("cast from {:?} to {:?}", a, t)),
                }
            }
            Expr::Struct(st) if self.file.structs.contains_key(&last_ident(&st.path)) && st.rest.is_none() => {
                let sn = last_ident(&st.path);
                let mut fs = vec![];
                for f in &st.fields {
                    let n = match &f.member {
                        syn::Member::Named(i) => i.to_string(),
                        _ => return Err("unnamed field".into()),
                    };
                    let fty = self.file.structs[&sn].iter().find(|x| x.0 == n).map(|x| x.1.clone()).unwrap_or(Ty::Unknown);
                    let v = self.expr_h(&f.expr, &fty, b)?;
                    fs.push(format!("{}_{} := {}", sn, n, v));
                }
                if fs.len() != self.file.structs[&sn].len() {
                    return Err("struct literal with missing fields".into());
                }
                Ok(format!("{{| {} |}}", fs.join("; ")))
            }
            Expr::Struct(st) => {
                if last_ident(&st.path) != "BidiMatchedOpeningBracket" || st.rest.is_some() {
                    return Err("struct literal other than BidiMatchedOpeningBracket".into());
                }
                let mut opening = None;
                let mut is_open = None;
                for f in &st.fields {
                    let n = match &f.member {
                        syn::Member::Named(i) => i.to_string(),
                        _ => return Err("unnamed field".into()),
                    };
                    let v = self.expr(&f.expr, b)?;
                    match n.as_str() {
                        "opening" => opening = Some(v),
                        "is_open" => is_open = Some(v),
                        _ => return Err(format!("unknown field {}", n)),
                    }
                }
                match (opening, is_open) {
                    (Some(o), Some(i)) => Ok(format!("({}, {})", o, i)),
                    _ => Err("BidiMatchedOpeningBracket literal lacks a field".into()),
                }
            }
            _ => Err(format!("unsupported expression kind: {}", kind(e))),
        }
    }

    fn path(&mut self, p: &syn::Path) -> R<String> {
        let n = last_ident(p);
        if p.is_ident("self") {
            return Ok("self_".into());
        }
        if p.segments.len() == 1 && self.lookup_local(&n).is_some() {
            return Ok(coq_ident(&n));
        }
        if let Some(v) = self.file.int_consts.get(&n) {
            return Ok(format!("{}%nat", v));
        }
        if let Some(e) = self.file.other_consts.get(&n) {
            let e = e.clone();
            let mut b = vec![];
            let was = self.in_const;
            self.in_const = true;
            let t = self.expr(&e, &mut b);
            self.in_const = was;
            let t = t?;
            if !b.is_empty() {
                return Err(format!("constant {} is not pure", n));
            }
            return Ok(t);
        }
        if n == "REPLACEMENT_CHARACTER" {
            return Ok("65533%N".into());
        }
        if p.segments.len() == 2 && p.segments[0].ident == "chars" {
            // crate::format_chars constants (ConstsGen.v)
            return Ok(format!("fc_{}", n));
        }
        if self.file.stem != "level" {
            match n.as_str() {
                "LTR_LEVEL" => return Ok("0%nat".into()),
                "RTL_LEVEL" => return Ok("1%nat".into()),
                // level.rs constants as regenerated into ConstsGen.v
                "MAX_EXPLICIT_DEPTH" => return Ok("max_depth".into()),
                "MAX_IMPLICIT_DEPTH" => return Ok("max_implicit_depth_src".into()),
                _ => {}
            }
        }
        match n.as_str() {
            "None" => return Ok("None".into()),
            "Equal" => return Ok("Eq".into()),
            "Less" => return Ok("Lt".into()),
            "Greater" => return Ok("Gt".into()),
            "bidi_class_table" => return Ok("bidi_class_table".into()),
            "bidi_pairs_table" => return Ok("bidi_pairs_table".into()),
            _ => {}
        }
        if let Some(c) = coq_class(&n) {
            return Ok(c.into());
        }
        for (en, vars) in &self.file.enums {
            if vars.contains(&n) {
                return Ok(format!("{}_{}", en, n));
            }
        }
        Err(format!("unresolved path `{}`", n))
    }

    fn binary(&mut self, bi: &syn::ExprBinary, b: &mut Binds) -> R<String> {
        match bi.op {
            BinOp::And(_) | BinOp::Or(_) => {
                let l = self.expr(&bi.left, b)?;
                let mut rb = vec![];
                let r = self.expr(&bi.right, &mut rb)?;
                if rb.is_empty() {
                    return Ok(match bi.op {
                        BinOp::And(_) => format!("({} && {})", l, r),
                        _ => format!("({} || {})", l, r),
                    });
                }
                let rc = wrap(&rb, &format!("Ok {}", paren(&r)));
                let x = self.fresh("sc");
                let c = match bi.op {
                    BinOp::And(_) => format!("if {} then {} else Ok false", l, rc),
                    _ => format!("if {} then Ok true else {}", l, rc),
                };
                b.push((x.clone(), c));
                Ok(x)
            }
            BinOp::Add(_) | BinOp::Sub(_) | BinOp::Mul(_) | BinOp::Div(_) | BinOp::Rem(_) => {
                self.check_mix(&bi.left, &bi.right)?;
                let t = self.num_ty(&bi.left, &bi.right);
                let l = self.expr_h(&bi.left, &t, b)?;
                let r = self.expr_h(&bi.right, &t, b)?;
                let t = if t == Ty::Level { Ty::U8 } else { t };
                if self.in_const && (t == Ty::U8 || t == Ty::Word) {
                    // constant folding is done by rustc (an overflow would be a compile error)
                    match bi.op {
                        BinOp::Add(_) => return Ok(format!("({} + {})", l, r)),
                        BinOp::Mul(_) => return Ok(format!("({} * {})", l, r)),
                        BinOp::Sub(_) => return Ok(format!("({} - {})", l, r)),
                        _ => {}
                    }
                }
                if t == Ty::Word {
                    if let BinOp::Add(_) = bi.op {
                        return Ok(format!("({} + {})", l, r)); // machine-word overflow not modelled
                    }
                    if let BinOp::Mul(_) = bi.op {
                        return Ok(format!("({} * {})", l, r));
                    }
                }
                if t != Ty::Word && t != Ty::U8 {
                    return Err("arithmetic on a type the translator cannot determine".into());
                }
                let x = self.fresh("a");
                let c = match bi.op {
                    BinOp::Add(_) => format!("rs_add8 {} {}", l, r),
                    BinOp::Sub(_) => format!("rs_subn {} {}", l, r),
                    BinOp::Mul(_) => format!("rs_mul8 {} {}", l, r),
                    BinOp::Div(_) => format!("rs_divn {} {}", l, r),
                    _ => format!("rs_remn {} {}", l, r),
                };
                b.push((x.clone(), c));
                Ok(x)
            }
            BinOp::BitAnd(_) | BinOp::BitOr(_) | BinOp::BitXor(_) => {
                let t = self.num_ty(&bi.left, &bi.right);
                if t == Ty::U16 {
                    let l = self.expr_h(&bi.left, &Ty::U16, b)?;
                    let r = self.expr_h(&bi.right, &Ty::U16, b)?;
                    return Ok(match bi.op {
                        BinOp::BitAnd(_) => format!("(N.land {} {})", l, r),
                        BinOp::BitOr(_) => format!("(N.lor {} {})", l, r),
                        _ => format!("(N.lxor {} {})", l, r),
                    });
                }
                if t != Ty::U8 && t != Ty::Level {
                    return Err("bitwise operator on a type other than u8 / u16".into());
                }
                // `x & !1`: `!lit` takes the width of the other operand
                let side = |me: &mut Self, e: &Expr, b: &mut Binds| -> R<String> {
                    if let Expr::Unary(u) = strip(e) {
                        if matches!(u.op, UnOp::Not(_)) && me.infer(&u.expr) == Ty::Unknown {
                            let x = me.expr_h(&u.expr, &Ty::U8, b)?;
                            return Ok(format!("(rs_not8 {})", x));
                        }
                    }
                    me.expr_h(e, &Ty::U8, b)
                };
                let l = side(self, &bi.left, b)?;
                let r = side(self, &bi.right, b)?;
                Ok(match bi.op {
                    BinOp::BitAnd(_) => format!("(Nat.land {} {})", l, r),
                    BinOp::BitOr(_) => format!("(Nat.lor {} {})", l, r),
                    _ => format!("(Nat.lxor {} {})", l, r),
                })
            }
            BinOp::Eq(_) | BinOp::Ne(_) | BinOp::Lt(_) | BinOp::Le(_) | BinOp::Gt(_) | BinOp::Ge(_) => {
                self.check_mix(&bi.left, &bi.right)?;
                let t = match self.infer(&bi.left) {
                    Ty::Unknown => match self.infer(&bi.right) {
                        Ty::Unknown => Ty::Word,
                        t => t,
                    },
                    t => t,
                };
                let l = self.expr_h(&bi.left, &t, b)?;
                let r = self.expr_h(&bi.right, &t, b)?;
                let m = if t.is_nat() { "Nat" } else { "N" };
                let t = if t == Ty::U16 { Ty::Char } else { t };
                match (&t, &bi.op) {
                    (Ty::U8 | Ty::Word | Ty::Level | Ty::Char, BinOp::Eq(_)) => Ok(format!("({}.eqb {} {})", m, l, r)),
                    (Ty::U8 | Ty::Word | Ty::Level | Ty::Char, BinOp::Ne(_)) => Ok(format!("(negb ({}.eqb {} {}))", m, l, r)),
                    (Ty::U8 | Ty::Word | Ty::Level | Ty::Char, BinOp::Lt(_)) => Ok(format!("({}.ltb {} {})", m, l, r)),
                    (Ty::U8 | Ty::Word | Ty::Level | Ty::Char, BinOp::Le(_)) => Ok(format!("({}.leb {} {})", m, l, r)),
                    (Ty::U8 | Ty::Word | Ty::Level | Ty::Char, BinOp::Gt(_)) => Ok(format!("({}.ltb {} {})", m, r, l)),
                    (Ty::U8 | Ty::Word | Ty::Level | Ty::Char, BinOp::Ge(_)) => Ok(format!("({}.leb {} {})", m, r, l)),
                    (Ty::Class, BinOp::Eq(_)) => Ok(format!("(ceq {} {})", l, r)),
                    (Ty::Class, BinOp::Ne(_)) => Ok(format!("(negb (ceq {} {}))", l, r)),
                    (Ty::Bool, BinOp::Eq(_)) => Ok(format!("(Bool.eqb {} {})", l, r)),
                    (Ty::Enum(en), BinOp::Eq(_)) => Ok(format!("({}_eqb {} {})", en, l, r)),
                    (Ty::Enum(en), BinOp::Ne(_)) => Ok(format!("(negb ({}_eqb {} {}))", en, l, r)),
                    _ => Err("comparison on a type the translator cannot determine".into()),
                }
            }
            _ => Err("unsupported binary operator".into()),
        }
    }

    fn args(&mut self, args: &syn::punctuated::Punctuated<Expr, syn::token::Comma>, b: &mut Binds) -> R<Vec<String>> {
        args.iter().map(|a| self.expr(a, b)).collect()
    }

    fn call(&mut self, c: &syn::ExprCall, b: &mut Binds) -> R<String> {
        let p = match strip(&c.func) {
            Expr::Path(p) => &p.path,
            _ => return Err("call through a non-path".into()),
        };
        let n = last_ident(p);
        let segs: Vec<String> = p.segments.iter().map(|s| s.ident.to_string()).collect();
        if segs.len() == 1 {
            match n.as_str() {
                "Some" | "Ok" | "Err" if c.args.len() == 1 => {
                    let a = self.expr(&c.args[0], b)?;
                    let ctor = match n.as_str() {
                        "Some" => "Some",
                        "Ok" => "ROk",
                        _ => "RErr",
                    };
                    return Ok(format!("({} {})", ctor, a));
                }
                "Level" if c.args.len() == 1 => return self.expr_h(&c.args[0], &Ty::U8, b),
                _ => {}
            }
        }
        if (segs.len() == 1 || (segs.len() == 2 && segs[0] == "cmp")) && (n == "max" || n == "min") && c.args.len() == 2 {
            let t = self.num_ty(&c.args[0], &c.args[1]);
            if !t.is_nat() {
                return Err("max/min on a type other than an unsigned integer or Level".into());
            }
            let x = self.expr_h(&c.args[0], &t, b)?;
            let y = self.expr_h(&c.args[1], &t, b)?;
            return Ok(format!("(Nat.{} {} {})", n, x, y));
        }
        if segs.len() == 2 && (segs[0] == "Vec" || segs[0] == "SmallVec" || segs[0] == "String") && (n == "new" || n == "with_capacity") {
            // the argument of with_capacity is evaluated (it may have effects), the capacity itself is not observable
            for a in &c.args {
                let _ = self.expr(a, b)?;
            }
            return Ok("[]".into());
        }
        // usize::from(x) / u32::from(x) ...: a widening conversion between unsigned integers keeps the value
        if segs.len() == 2 && n == "from" && matches!(segs[0].as_str(), "usize" | "u32" | "u64" | "i32" | "isize") && c.args.len() == 1 {
            return match self.infer(&c.args[0]) {
                Ty::U8 | Ty::U16 | Ty::Word | Ty::Char => self.expr(&c.args[0], b),
                t => Err(format!("{}::from on {:?}", segs[0], t)),
            };
        }
        if segs.len() == 2 && segs[0] == "char" && n == "from_u32" && c.args.len() == 1 {
            let a = self.expr(&c.args[0], b)?;
            return Ok(format!("(rs_char_from_u32 {})", a));
        }
        // T::char_len(c) for the TextSource type parameter
        if segs.len() == 2 && n == "char_len" && c.args.len() == 1 {
            let a = self.expr(&c.args[0], b)?;
            return Ok(format!("(rs_char_len ts {})", a));
        }
        let key = if segs.len() >= 2 {
            let ty = &segs[segs.len() - 2];
            let ty = if ty == "Self" { "Level".to_string() } else { ty.clone() };
            (Some(ty), n.clone())
        } else {
            (None, n.clone())
        };
        let coq = match self.done.get(&key) {
            Some(c) => c.clone(),
            None => {
                // `module::f(..)` / `Level::f(..)` defined in another translated file
                let found = self.all_done.iter().find(|((stem, l, f), _)| {
                    *f == n && (segs.len() < 2 || (l.is_none() && *stem == segs[segs.len() - 2]) || l.as_deref() == key.0.as_deref())
                });
                match found {
                    Some((_, (c, _))) => c.clone(),
                    None => return Err(format!("call to `{}` which is not translated", segs.join("::"))),
                }
            }
        };
        if coq.ends_with(" fuel") {
            self.uses_fuel = true;
        }
        let a = self.args(&c.args, b)?;
        let x = self.fresh("r");
        b.push((x.clone(), format!("{} {}", coq, a.join(" ")).trim_end().to_string()));
        Ok(x)
    }

    fn method(&mut self, m: &syn::ExprMethodCall, b: &mut Binds) -> R<String> {
        let name = m.method.to_string();
        let rty = self.infer(&m.receiver);
        match name.as_str() {
            "checked_add" | "checked_sub" if m.args.len() == 1 => {
                let t = self.num_ty(&m.receiver, &m.args[0]);
                if t != Ty::U8 && t != Ty::Level {
                    return Err("checked arithmetic on a type other than u8".into());
                }
                let l = self.expr_h(&m.receiver, &Ty::U8, b)?;
                let r = self.expr_h(&m.args[0], &Ty::U8, b)?;
                return Ok(if name == "checked_add" {
                    format!("(rs_checked_add8 {} {})", l, r)
                } else {
                    format!("(rs_checked_subn {} {})", l, r)
                });
            }
            "expect" | "unwrap" => {
                let is_opt = matches!(rty, Ty::Opt(_));
                let l = self.expr(&m.receiver, b)?;
                let x = self.fresh("u");
                b.push((x.clone(), format!("{} {}", if is_opt { "rs_unwrap" } else { "rs_expect" }, l)));
                return Ok(x);
            }
            "unwrap_or" if m.args.len() == 1 => {
                let l = self.expr(&m.receiver, b)?;
                let d = self.expr(&m.args[0], b)?;
                return Ok(format!("(opt_or {} {})", l, d));
            }
            "next" if m.args.is_empty() => {
                // char::decode_utf16(units).next(): the first decoded item
                if let Expr::Call(c) = strip(&m.receiver) {
                    if let Expr::Path(p) = strip(&c.func) {
                        let segs: Vec<String> = p.path.segments.iter().map(|s| s.ident.to_string()).collect();
                        if segs.len() == 2 && segs[0] == "char" && segs[1] == "decode_utf16" && c.args.len() == 1 {
                            let a = self.expr(&c.args[0], b)?;
                            return Ok(format!("(rs_decode_utf16_first {})", a));
                        }
                    }
                }
                return Err("unsupported `.next()`".into());
            }
            "into" if m.args.is_empty() && matches!(rty, Ty::U8 | Ty::U16 | Ty::Char) => {
                // widening integer conversion
                if rty == Ty::U8 {
                    return Err("u8 -> wider conversion".into());
                }
                return self.expr(&m.receiver, b);
            }
            "len_utf16" if m.args.is_empty() => {
                let l = self.expr(&m.receiver, b)?;
                return Ok(format!("(rs_len_utf16 {})", l));
            }
            "len_utf8" if m.args.is_empty() => {
                let l = self.expr(&m.receiver, b)?;
                return Ok(format!("(rs_len_utf8 {})", l));
            }
            "last" if m.args.is_empty() && matches!(rty, Ty::Slice(_)) => {
                let l = self.expr(&m.receiver, b)?;
                return Ok(format!("(rs_last {})", l));
            }
            "is_ok" if m.args.is_empty() => {
                let l = self.expr(&m.receiver, b)?;
                return Ok(format!("(match {} with ROk _ => true | RErr _ => false end)", l));
            }
            "is_err" if m.args.is_empty() => {
                let l = self.expr(&m.receiver, b)?;
                return Ok(format!("(match {} with ROk _ => false | RErr _ => true end)", l));
            }
            "len" if m.args.is_empty() && rty == Ty::Text => {
                let l = self.expr(&m.receiver, b)?;
                return Ok(format!("(rs_text_len ts {})", l));
            }
            "is_none" if m.args.is_empty() => {
                let l = self.expr(&m.receiver, b)?;
                return Ok(format!("(match {} with None => true | Some _ => false end)", l));
            }
            "is_some" if m.args.is_empty() => {
                let l = self.expr(&m.receiver, b)?;
                return Ok(format!("(match {} with None => false | Some _ => true end)", l));
            }
            "len" if m.args.is_empty() && matches!(rty, Ty::Slice(_)) => {
                let l = self.expr(&m.receiver, b)?;
                return Ok(format!("(length {})", l));
            }
            "bidi_class" if m.args.len() == 1 && rty == Ty::Source => {
                let l = self.expr(&m.receiver, b)?;
                let a = self.expr(&m.args[0], b)?;
                return Ok(format!("(rs_bidi_class {} {})", l, a));
            }
            "chars" | "char_indices" | "indices_lengths" if m.args.is_empty() && rty == Ty::Text => {
                let l = self.expr(&m.receiver, b)?;
                return Ok(format!("(rs_{} ts {})", name, l));
            }
            "iter" | "into_iter" | "clone" | "copied" | "cloned" if m.args.is_empty() => return self.expr(&m.receiver, b),
            "chars" if m.args.is_empty() && rty == Ty::Str => return self.expr(&m.receiver, b),
            "rev" if m.args.is_empty() && matches!(rty, Ty::Slice(_)) => {
                let l = self.expr(&m.receiver, b)?;
                return Ok(format!("(rev {})", l));
            }
            "into" if m.args.is_empty() && rty == Ty::Str => return self.expr(&m.receiver, b),
            "len" if m.args.is_empty() && rty == Ty::Range => {
                let r = self.expr(&m.receiver, b)?;
                return Ok(format!("(snd {} - fst {})", r, r));
            }
            "get" if m.args.len() == 1 && matches!(rty, Ty::Slice(_)) => {
                let l = self.expr(&m.receiver, b)?;
                let i = self.expr_h(&m.args[0], &Ty::Word, b)?;
                return Ok(format!("(nth_error {} {})", l, i));
            }
            "is_empty" if m.args.is_empty() && matches!(rty, Ty::Slice(_)) => {
                let l = self.expr(&m.receiver, b)?;
                return Ok(format!("(Nat.eqb (length {}) 0%nat)", l));
            }
            "collect" if m.args.is_empty() && matches!(strip(&m.receiver), Expr::Range(_)) => {
                // (a..b).collect()
                if let Expr::Range(r) = strip(&m.receiver) {
                    if let (Some(st), Some(en), syn::RangeLimits::HalfOpen(_)) = (&r.start, &r.end, &r.limits) {
                        let from = self.expr_h(st, &Ty::Word, b)?;
                        let to = self.expr_h(en, &Ty::Word, b)?;
                        return Ok(format!("(rs_range {} {})", from, to));
                    }
                }
                return Err("collect of a range that is not a..b".into());
            }
            "fold" if m.args.len() == 2 && matches!(rty, Ty::Slice(_)) => {
                // slice.iter().fold(init, |acc, x| pure expression)
                let elem = match &rty {
                    Ty::Slice(t) => (**t).clone(),
                    _ => Ty::Unknown,
                };
                let l = self.expr(&m.receiver, b)?;
                let init = self.expr(&m.args[0], b)?;
                let init_ty = self.infer(&m.args[0]);
                if let Expr::Closure(cl) = strip(&m.args[1]) {
                    if cl.inputs.len() != 2 {
                        return Err("closure arity".into());
                    }
                    let (pa, va) = self.pattern(&cl.inputs[0])?;
                    let (px, vx) = self.pattern(&cl.inputs[1])?;
                    let n0 = self.locals.len();
                    let nva = va.len();
                    for (k, v) in va.into_iter().enumerate() {
                        let t = match &init_ty {
                            Ty::Tup(ts) if ts.len() == nva => ts[k].clone(),
                            t => t.clone(),
                        };
                        self.locals.push((v, t, false));
                    }
                    for v in vx {
                        self.locals.push((v, elem.clone(), false));
                    }
                    let mut cb = vec![];
                    let body_e: &Expr = match strip(&cl.body) {
                        Expr::Block(bl) if bl.block.stmts.len() == 1 => match &bl.block.stmts[0] {
                            Stmt::Expr(e, None) => e,
                            _ => &cl.body,
                        },
                        e => e,
                    };
                    let body = self.expr(body_e, &mut cb);
                    self.locals.truncate(n0);
                    let body = body?;
                    if !cb.is_empty() {
                        return Err(format!("fold with a closure that can panic: {:?}", cb));
                    }
                    return Ok(format!("(fold_left (fun '{} '{} => {}) {} {})", pa, px, body, l, init));
                }
                return Err("fold without a closure literal".into());
            }
            // iterator adaptors over a slice (the arguments are evaluated once, when the chain is built)
            "enumerate" if m.args.is_empty() && matches!(rty, Ty::Slice(_)) => {
                let l = self.expr(&m.receiver, b)?;
                return Ok(format!("(rs_enumerate {})", l));
            }
            "take" | "skip" if m.args.len() == 1 && matches!(rty, Ty::Slice(_)) => {
                let l = self.expr(&m.receiver, b)?;
                let n = self.expr_h(&m.args[0], &Ty::Word, b)?;
                return Ok(format!("({} {} {})", if name == "take" { "firstn" } else { "skipn" }, n, l));
            }
            "any" | "all" if m.args.len() == 1 => {
                let elem = match self.infer(strip_iter(&m.receiver)) {
                    Ty::Slice(t) => *t,
                    _ => Ty::Unknown,
                };
                let l = self.expr(&m.receiver, b)?;
                if let Expr::Closure(cl) = strip(&m.args[0]) {
                    if cl.inputs.len() != 1 {
                        return Err("closure arity".into());
                    }
                    let v = pat_var(&cl.inputs[0])?;
                    self.locals.push((v.clone(), elem, false));
                    let body = self.tail(&cl.body, false);
                    self.locals.pop();
                    let x = self.fresh("q");
                    b.push((x.clone(), format!("rs_{} (fun {} => {}) {}", name, coq_ident(&v), body?, l)));
                    return Ok(x);
                }
                return Err("`any`/`all` without a closure literal".into());
            }
            "binary_search_by" if m.args.len() == 1 => {
                let l = self.expr(&m.receiver, b)?;
                if let Expr::Closure(cl) = strip(&m.args[0]) {
                    if cl.inputs.len() != 1 {
                        return Err("closure arity".into());
                    }
                    let (pat, vars) = self.pattern(&cl.inputs[0])?;
                    let n0 = self.locals.len();
                    for v in vars {
                        self.locals.push((v, Ty::Char, false));
                    }
                    let body = self.tail(&cl.body, false);
                    self.locals.truncate(n0);
                    let x = self.fresh("bs");
                    b.push((x.clone(), format!("rs_binary_search_by (fun '{} => {}) {}", pat, body?, l)));
                    return Ok(x);
                }
                return Err("binary_search_by without a closure literal".into());
            }
            _ => {}
        }
        // a method of the same file, or a Level method from level.rs
        let cands: Vec<&FnInfo> = self.file.fns.iter().filter(|f| f.has_self && f.key.1 == name).collect();
        let coq = if cands.len() == 1 {
            let fi = cands[0];
            if fi.mut_self {
                return Err("call to a `&mut self` method in expression position".into());
            }
            self.done.get(&fi.key).cloned().ok_or(format!("call to `{}` which is not translated", fi.rust))?
        } else if rty == Ty::Slice(Box::new(Ty::U16)) {
            self.done
                .iter()
                .find(|((l, n), _)| l.as_deref() == Some("TextSource_for_u16slice") && *n == name)
                .map(|(_, c)| c.clone())
                .ok_or(format!("call to <[u16] as TextSource>::{} which is not translated", name))?
        } else if rty == Ty::Level {
            self.all_done
                .iter()
                .find(|((s, l, n), _)| s == "level" && l.as_deref() == Some("Level") && *n == name)
                .map(|(_, (c, _))| c.clone())
                .ok_or(format!("call to Level::{} which is not translated", name))?
        } else {
            return Err(format!("unsupported method `{}`", name));
        };
        let recv = self.expr(&m.receiver, b)?;
        let a = self.args(&m.args, b)?;
        let x = self.fresh("r");
        b.push((x.clone(), format!("{} {} {}", coq, recv, a.join(" ")).trim_end().to_string()));
        Ok(x)
    }

    fn mac(&mut self, m: &syn::Macro, b: &mut Binds) -> R<String> {
        let n = last_ident(&m.path);
        if n == "matches" {
            let parsed: MatchesArgs = syn::parse2(m.tokens.clone()).map_err(|e| format!("matches!: {}", e))?;
            let s = self.expr(&parsed.scrutinee, b)?;
            let (p, vars) = self.pattern(&parsed.pat)?;
            if !vars.is_empty() {
                return Err("matches! with binders".into());
            }
            return Ok(format!("(match {} with {} => true | _ => false end)", s, p));
        }
        if n == "vec" {
            let parsed: VecArgs = syn::parse2(m.tokens.clone()).map_err(|e| format!("vec!: {}", e))?;
            let mut xs = vec![];
            for e in &parsed.elems {
                xs.push(self.expr(e, b)?);
            }
            return Ok(format!("[{}]", xs.join("; ")));
        }
        Err(format!("unsupported macro `{}!`", n))
    }

    /// Coq pattern + bound variables
    fn pattern(&mut self, p: &Pat) -> R<(String, Vec<String>)> {
        match p {
            Pat::Wild(_) => Ok(("_".into(), vec![])),
            Pat::Ident(i) => {
                let n = i.ident.to_string();
                if n == "None" {
                    return Ok(("None".into(), vec![]));
                }
                if let Some(c) = coq_class(&n) {
                    if self.lookup_local(&n).is_none() {
                        return Ok((c.into(), vec![]));
                    }
                }
                match n.as_str() {
                    "Equal" => return Ok(("Eq".into(), vec![])),
                    "Less" => return Ok(("Lt".into(), vec![])),
                    "Greater" => return Ok(("Gt".into(), vec![])),
                    _ => {}
                }
                Ok((coq_ident(&n), vec![n]))
            }
            Pat::Reference(r) => self.pattern(&r.pat),
            Pat::Paren(r) => self.pattern(&r.pat),
            Pat::Type(t) => self.pattern(&t.pat),
            Pat::Path(pp) => Ok((self.path(&pp.path)?, vec![])),
            Pat::TupleStruct(ts) => {
                let n = last_ident(&ts.path);
                let ctor = match n.as_str() {
                    "Some" => "Some",
                    "Ok" => "ROk",
                    "Err" => "RErr",
                    _ => return Err(format!("unsupported constructor pattern `{}`", n)),
                };
                if ts.elems.len() != 1 {
                    return Err("constructor pattern arity".into());
                }
                let (p, v) = self.pattern(&ts.elems[0])?;
                Ok((format!("({} {})", ctor, p), v))
            }
            Pat::Struct(ps) if self.file.structs.contains_key(&last_ident(&ps.path)) => {
                let sn = last_ident(&ps.path);
                let mut fs = vec![];
                let mut vs = vec![];
                for f in &ps.fields {
                    let n = match &f.member {
                        syn::Member::Named(i) => i.to_string(),
                        _ => return Err("unnamed field pattern".into()),
                    };
                    let (p, v) = self.pattern(&f.pat)?;
                    fs.push(format!("{}_{} := {}", sn, n, p));
                    vs.extend(v);
                }
                Ok((format!("{{| {} |}}", fs.join("; ")), vs))
            }
            Pat::Tuple(t) => {
                let mut ps = vec![];
                let mut vs = vec![];
                for e in &t.elems {
                    let (p, v) = self.pattern(e)?;
                    ps.push(p);
                    vs.extend(v);
                }
                Ok((format!("({})", ps.join(", ")), vs))
            }
            Pat::Or(o) => {
                let mut ps = vec![];
                for c in &o.cases {
                    let (p, v) = self.pattern(c)?;
                    if !v.is_empty() {
                        return Err("or-pattern with binders".into());
                    }
                    ps.push(p);
                }
                Ok((ps.join(" | "), vec![]))
            }
            Pat::Lit(l) => match &l.lit {
                Lit::Int(i) => Ok((format!("{}%nat", i.base10_parse::<u64>().map_err(|e| e.to_string())?), vec![])),
                Lit::Bool(x) => Ok(((if x.value { "true" } else { "false" }).into(), vec![])),
                _ => Err("unsupported literal pattern".into()),
            },
            _ => Err("unsupported pattern".into()),
        }
    }

    // ---------------------------------------------------------------- expression mode
    /// [e] in tail position -> a Coq term of type `res T` (`res (nat * T)` when [st]: a `&mut self` method,
    /// the current value of self.0 threaded as `self_`).
    fn tail(&mut self, e: &Expr, st: bool) -> R<String> {
        match e {
            Expr::Paren(p) => self.tail(&p.expr, st),
            Expr::Group(g) => self.tail(&g.expr, st),
            Expr::Block(bl) => self.block(&bl.block, st),
            Expr::If(i) => {
                if let Expr::Let(l) = strip(&i.cond) {
                    // if let PAT = e { A } else { B }
                    let mut b = vec![];
                    let sc = self.expr(&l.expr, &mut b)?;
                    let pty = self.payload_ty(&l.expr);
                    let (p, vars) = self.pattern(&l.pat)?;
                    let n0 = self.locals.len();
                    for v in vars {
                        self.locals.push((v, pty.clone(), false));
                    }
                    let t = self.block(&i.then_branch, st);
                    self.locals.truncate(n0);
                    let el = match &i.else_branch {
                        Some((_, e)) => self.tail(e, st)?,
                        None => return Err("`if let` without `else` in value position".into()),
                    };
                    return Ok(wrap(&b, &format!("match {} with {} => {} | _ => {} end", sc, p, t?, el)));
                }
                let mut b = vec![];
                let c = self.expr(&i.cond, &mut b)?;
                let t = self.block(&i.then_branch, st)?;
                let el = match &i.else_branch {
                    Some((_, e)) => self.tail(e, st)?,
                    None => return Err("`if` without `else` in value position".into()),
                };
                Ok(wrap(&b, &format!("if {} then {} else {}", c, t, el)))
            }
            Expr::Match(m) => {
                let mut b = vec![];
                let s = self.expr(&m.expr, &mut b)?;
                let pty = self.payload_ty(&m.expr);
                let mut arms = vec![];
                for (k, a) in m.arms.iter().enumerate() {
                    let (p, vars) = self.pattern(&a.pat)?;
                    let n0 = self.locals.len();
                    for v in vars {
                        self.locals.push((v, pty.clone(), false));
                    }
                    let body = self.tail(&a.body, st);
                    let guard = match &a.guard {
                        None => None,
                        Some((_, g)) => {
                            let mut gb = vec![];
                            let gc = self.expr_h(g, &Ty::Word, &mut gb);
                            match gc {
                                Ok(c) if gb.is_empty() => Some(Ok(c)),
                                Ok(_) => Some(Err("match guard with effects".to_string())),
                                Err(e) => Some(Err(e)),
                            }
                        }
                    };
                    self.locals.truncate(n0);
                    let body = body?;
                    match guard {
                        None => arms.push(format!("| {} => {}", p, body)),
                        Some(g) => {
                            // a guarded arm: when the guard fails the value falls to the later arms; supported when
                            // the only later arm is a `_` catch-all (its body is duplicated)
                            // (Rust's exhaustiveness check makes a single unguarded later arm a catch-all)
                            let later = &m.arms[k + 1..];
                            if later.len() != 1 || later[0].guard.is_some() {
                                return Err("match guard followed by more than one catch-all arm".into());
                            }
                            let (_, lv) = self.pattern(&later[0].pat)?;
                            if !lv.is_empty() {
                                return Err("match guard followed by an arm with binders".into());
                            }
                            let fall = self.tail(&later[0].body, st)?;
                            arms.push(format!("| {} => if {} then {} else {}", p, g?, body, fall));
                            arms.push(format!("| _ => {}", fall));
                            return Ok(wrap(&b, &format!("match {} with {} end", s, arms.join(" "))));
                        }
                    }
                }
                Ok(wrap(&b, &format!("match {} with {} end", s, arms.join(" "))))
            }
            Expr::Return(r) => match &r.expr {
                Some(e) => self.tail(e, st),
                None => Ok(self.ret("tt", st)),
            },
            _ => {
                let mut b = vec![];
                let t = self.expr(e, &mut b)?;
                let r = self.ret(&t, st);
                Ok(wrap(&b, &r))
            }
        }
    }

    /// type of the payload bound by Some(x)/Ok(x) patterns on [e]
    fn payload_ty(&self, e: &Expr) -> Ty {
        if let Expr::MethodCall(m) = strip(e) {
            if m.method == "checked_add" || m.method == "checked_sub" {
                return Ty::U8;
            }
            if m.method == "binary_search_by" {
                return Ty::Word;
            }
        }
        match self.infer(e) {
            Ty::Opt(t) => *t,
            _ => Ty::Unknown,
        }
    }

    fn ret(&self, t: &str, st: bool) -> String {
        if st {
            format!("Ok (self_, {})", t)
        } else {
            format!("Ok {}", paren(t))
        }
    }

    fn block(&mut self, bl: &syn::Block, st: bool) -> R<String> {
        let n0 = self.locals.len();
        let r = self.stmts(&bl.stmts, st);
        self.locals.truncate(n0);
        r
    }

    fn stmts(&mut self, ss: &[Stmt], st: bool) -> R<String> {
        if ss.is_empty() {
            return Ok(self.ret("tt", st));
        }
        let (s, rest) = (&ss[0], &ss[1..]);
        match s {
            Stmt::Local(l) => {
                let init = l.init.as_ref().ok_or("let without initialiser")?;
                if init.diverge.is_some() {
                    return Err("let-else".into());
                }
                if matches!(strip_pat_type(&l.pat), Pat::Ident(i) if i.mutability.is_some()) {
                    return Err("let mut in expression mode".into());
                }
                let mut b = vec![];
                let t = self.expr(&init.expr, &mut b)?;
                let ty = self.infer(&init.expr);
                let (p, vars) = self.pattern(strip_pat_type(&l.pat))?;
                for v in vars {
                    self.locals.push((v, ty.clone(), false));
                }
                let k = self.stmts(rest, st)?;
                Ok(wrap(&b, &format!("let '{} := {} in {}", p, t, k)))
            }
            Stmt::Expr(e, semi) => {
                if rest.is_empty() && (semi.is_none() || matches!(e, Expr::Return(_))) {
                    return self.tail(e, st);
                }
                match e {
                    Expr::Assign(a) => {
                        let ok = matches!(strip(&a.left), Expr::Field(f) if is_self(&f.base));
                        if !ok || !st {
                            return Err("assignment to something other than self.0 of a &mut self method".into());
                        }
                        let mut b = vec![];
                        let t = self.expr(&a.right, &mut b)?;
                        let k = self.stmts(rest, st)?;
                        Ok(wrap(&b, &format!("let self_ := {} in {}", t, k)))
                    }
                    Expr::ForLoop(fl) => self.for_return_loop(fl, rest, st),
                    Expr::Macro(m) if last_ident(&m.mac.path).starts_with("debug_assert") => self.stmts(rest, st),
                    _ => Err(format!("unsupported statement: {}", kind(e))),
                }
            }
            Stmt::Macro(m) if last_ident(&m.mac.path).starts_with("debug_assert") => self.stmts(rest, st),
            _ => Err("unsupported statement".into()),
        }
    }

    /// `for pat in e { lets; if c { lets; return r; } }  rest`  ->  rs_for_return  (no mutable state)
    fn for_return_loop(&mut self, fl: &syn::ExprForLoop, rest: &[Stmt], st: bool) -> R<String> {
        if st {
            return Err("loop in a &mut self method".into());
        }
        let mut b = vec![];
        let coll = self.expr(&fl.expr, &mut b)?;
        let (p, vars) = self.pattern(&fl.pat)?;
        let n0 = self.locals.len();
        for v in vars {
            self.locals.push((v, Ty::Unknown, false));
        }
        let body = self.loop_body(&fl.body.stmts);
        self.locals.truncate(n0);
        let body = body?;
        let k = self.stmts(rest, st)?;
        Ok(wrap(&b, &format!("rs_for_return (fun '{} => {}) {} ({})", p, body, coll, k)))
    }

    fn loop_body(&mut self, ss: &[Stmt]) -> R<String> {
        if ss.is_empty() {
            return Ok("Ok None".into());
        }
        let (s, rest) = (&ss[0], &ss[1..]);
        match s {
            Stmt::Local(l) => {
                let init = l.init.as_ref().ok_or("let without initialiser")?;
                let mut b = vec![];
                let t = self.expr(&init.expr, &mut b)?;
                let (p, vars) = self.pattern(strip_pat_type(&l.pat))?;
                for v in vars {
                    self.locals.push((v, Ty::Char, false));
                }
                let k = self.loop_body(rest)?;
                Ok(wrap(&b, &format!("let '{} := {} in {}", p, t, k)))
            }
            Stmt::Expr(Expr::Return(r), _) => {
                let e = r.expr.as_ref().ok_or("bare return in loop")?;
                let mut b = vec![];
                let t = self.expr(e, &mut b)?;
                Ok(wrap(&b, &format!("Ok (Some {})", paren(&t))))
            }
            Stmt::Expr(Expr::If(i), _) if i.else_branch.is_none() => {
                let mut b = vec![];
                let c = self.expr(&i.cond, &mut b)?;
                let n0 = self.locals.len();
                let t = self.loop_body(&i.then_branch.stmts);
                self.locals.truncate(n0);
                let k = self.loop_body(rest)?;
                Ok(wrap(&b, &format!("if {} then (o <- {} ;; match o with Some r => Ok (Some r) | None => {} end) else {}", c, paren(&t?), k, k)))
            }
            _ => Err("unsupported statement in a for loop".into()),
        }
    }

    // ---------------------------------------------------------------- flow mode
    fn mut_in_scope(&self) -> Vec<String> {
        let mut v = vec![];
        for (n, _, m) in &self.locals {
            if *m && !v.contains(n) {
                v.push(n.clone());
            }
        }
        v
    }

    /// variables of the current scope that [ss] may assign (ordered by declaration)
    fn writes_block(&self, ss: &[Stmt]) -> Vec<String> {
        let mut w = Writes { set: BTreeSet::new() };
        for s in ss {
            w.visit_stmt(s);
        }
        self.mut_in_scope().into_iter().filter(|n| w.set.contains(n)).collect()
    }

    fn writes_expr(&self, e: &Expr) -> Vec<String> {
        let mut w = Writes { set: BTreeSet::new() };
        w.visit_expr(e);
        self.mut_in_scope().into_iter().filter(|n| w.set.contains(n)).collect()
    }

    fn tuple(&self, vars: &[String]) -> String {
        if vars.is_empty() {
            "tt".into()
        } else {
            format!("({})", vars.iter().map(|v| coq_ident(v)).collect::<Vec<_>>().join(", "))
        }
    }

    /// the value a `return v` of the function yields: with `&mut` parameters their final contents ride along
    fn ret_value(&self, v: &str) -> String {
        let muts: Vec<String> = self.f.params.iter().filter(|p| p.2).map(|p| coq_ident(&p.0)).collect();
        if muts.is_empty() {
            v.to_string()
        } else {
            format!("({}, ({}))", v, muts.join(", "))
        }
    }

    /// Statement list in flow mode: a computation of type `res (flow G B R)`.
    /// [fin]: the variables whose current values are the payload of `Go` on normal completion.
    fn flow(&mut self, ss: &[Stmt], fin: &[String]) -> R<String> {
        if ss.is_empty() {
            return Ok(format!("Ok (Go {})", self.tuple(fin)));
        }
        let (s, rest) = (&ss[0], &ss[1..]);
        // the default feature set is what is translated: `#[cfg(feature = "smallvec")]` / "flame_it" statements are skipped
        let attrs: &[syn::Attribute] = match s {
            Stmt::Local(l) => &l.attrs,
            Stmt::Macro(m) => &m.attrs,
            Stmt::Expr(Expr::Block(b), _) => &b.attrs,
            Stmt::Expr(Expr::Call(c), _) => &c.attrs,
            Stmt::Expr(Expr::MethodCall(c), _) => &c.attrs,
            _ => &[],
        };
        match cfg_keeps(attrs) {
            Some(false) => return self.flow(rest, fin),
            _ => {}
        }
        match s {
            Stmt::Local(l) => {
                let (mutable, pat) = match strip_pat_type(&l.pat) {
                    Pat::Ident(i) => (i.mutability.is_some(), strip_pat_type(&l.pat)),
                    p => (false, p),
                };
                let declared = match &l.pat {
                    Pat::Type(t) => Some(ty_of_type(&t.ty, &syn::Generics::default())),
                    _ => None,
                };
                let init = l.init.as_ref().ok_or("let without initialiser")?;
                if init.diverge.is_some() {
                    return Err("let-else".into());
                }
                let mut b = vec![];
                let hint = declared.clone().unwrap_or(Ty::Word);
                let t = self.expr_h(&init.expr, &hint, &mut b)?;
                let mut was_defaulted = false;
                let ty = match declared {
                    Some(t) => t,
                    None => match self.infer(&init.expr) {
                        Ty::Unknown => {
                            was_defaulted = true;
                            Ty::Word
                        }
                        t => t,
                    },
                };
                let (p, vars) = self.pattern(pat)?;
                // `let mut v = Vec::new();`: the element type is that of the first `v.push(x)` that follows
                let ty = if ty == Ty::Slice(Box::new(Ty::Unknown)) && vars.len() == 1 {
                    let mut fp = FirstPush { var: vars[0].clone(), arg: None };
                    for s in rest {
                        fp.visit_stmt(s);
                    }
                    match fp.arg {
                        Some(a) => {
                            self.locals.push((vars[0].clone(), ty.clone(), mutable));
                            let t = self.infer(&a);
                            self.locals.pop();
                            Ty::Slice(Box::new(t))
                        }
                        None => ty,
                    }
                } else {
                    ty
                };
                let muts = pat_muts(pat);
                let nv = vars.len();
                for (k, v) in vars.into_iter().enumerate() {
                    if was_defaulted {
                        self.defaulted.insert(v.clone());
                    } else {
                        self.defaulted.remove(&v);
                    }
                    let tk = match &ty {
                        Ty::Tup(ts) if ts.len() == nv && nv > 1 => ts[k].clone(),
                        t => t.clone(),
                    };
                    self.locals.push((v, tk, mutable || muts.get(k).copied().unwrap_or(false)));
                }
                let k = self.flow(rest, fin)?;
                Ok(wrap(&b, &format!("let '{} := {} in {}", p, t, k)))
            }
            Stmt::Macro(m) => self.flow_macro(&m.mac, rest, fin),
            Stmt::Expr(e, _) => self.flow_stmt(e, rest, fin),
            Stmt::Item(Item::Fn(_)) => self.flow(rest, fin), // a nested function is translated on its own
            _ => Err("unsupported statement".into()),
        }
    }

    fn flow_macro(&mut self, m: &syn::Macro, rest: &[Stmt], fin: &[String]) -> R<String> {
        let n = last_ident(&m.path);
        if n.starts_with("debug_assert") {
            return self.flow(rest, fin);
        }
        if n == "assert_eq" || n == "assert" {
            let args: AssertArgs = syn::parse2(m.tokens.clone()).map_err(|e| format!("{}!: {}", n, e))?;
            let mut b = vec![];
            let c = if n == "assert" {
                self.expr(&args.a, &mut b)?
            } else {
                let rhs = args.b.as_ref().ok_or("assert_eq! needs two arguments")?;
                // only the shape `assert_eq!(x, None)`
                if matches!(strip(rhs), Expr::Path(p) if last_ident(&p.path) == "None") {
                    let l = self.expr(&args.a, &mut b)?;
                    format!("(match {} with None => true | Some _ => false end)", l)
                } else {
                    let t = self.num_ty(&args.a, rhs);
                    if !t.is_nat() {
                        return Err("assert_eq! on values the translator cannot type".into());
                    }
                    let l = self.expr_h(&args.a, &t, &mut b)?;
                    let r = self.expr_h(rhs, &t, &mut b)?;
                    format!("(Nat.eqb {} {})", l, r)
                }
            };
            let k = self.flow(rest, fin)?;
            return Ok(wrap(&b, &format!("_ <- rs_assert {} ;; {}", c, k)));
        }
        Err(format!("unsupported macro statement `{}!`", n))
    }

    /// rejoin after a compound statement that may assign [w] and may escape
    fn rejoin(&mut self, w: &[String], comp: &str, rest: &[Stmt], fin: &[String]) -> R<String> {
        let k = self.flow(rest, fin)?;
        Ok(format!(
            "f <- {} ;; match f with Go {} => {} | Brk b => Ok (Brk b) | Cnt b => Ok (Cnt b) | Ret r => Ok (Ret r) end",
            paren(comp),
            if w.is_empty() { "_".to_string() } else { format!("({})", w.iter().map(|v| coq_ident(v)).collect::<Vec<_>>().join(", ")) },
            k
        ))
    }

    fn flow_block(&mut self, bl: &syn::Block, fin: &[String]) -> R<String> {
        let n0 = self.locals.len();
        let r = self.flow(&bl.stmts, fin);
        self.locals.truncate(n0);
        r
    }

    /// an expression used as a statement body (match arm, else branch)
    fn flow_expr_as_block(&mut self, e: &Expr, fin: &[String]) -> R<String> {
        match e {
            Expr::Block(b) => self.flow_block(&b.block, fin),
            Expr::Tuple(t) if t.elems.is_empty() => Ok(format!("Ok (Go {})", self.tuple(fin))),
            _ => {
                let st = Stmt::Expr(e.clone(), Some(Default::default()));
                let n0 = self.locals.len();
                let r = self.flow(std::slice::from_ref(&st), fin);
                self.locals.truncate(n0);
                r
            }
        }
    }

    fn flow_stmt(&mut self, e: &Expr, rest: &[Stmt], fin: &[String]) -> R<String> {
        match e {
            Expr::Paren(p) => self.flow_stmt(&p.expr, rest, fin),
            Expr::Return(r) => {
                let mut b = vec![];
                let v = match &r.expr {
                    Some(e) => self.expr(e, &mut b)?,
                    None => "tt".into(),
                };
                Ok(wrap(&b, &format!("Ok (Ret {})", paren(&self.ret_value(&v)))))
            }
            Expr::Break(br) => {
                if br.expr.is_some() || br.label.is_some() {
                    return Err("labelled break / break with value".into());
                }
                let l = self.loops.last().ok_or("break outside a loop")?.clone();
                Ok(format!("Ok (Brk {})", self.tuple(&l)))
            }
            Expr::Continue(c) => {
                if c.label.is_some() {
                    return Err("labelled continue".into());
                }
                let l = self.loops.last().ok_or("continue outside a loop")?.clone();
                Ok(format!("Ok (Cnt {})", self.tuple(&l)))
            }
            Expr::Assign(a) => {
                // x = e;   |   v[i] = e;
                match strip(&a.left) {
                    Expr::Index(ix) => {
                        let v = local_name(&ix.expr).ok_or("indexed assignment to a non-variable")?;
                        if !self.is_mut_local(&v) {
                            return Err("indexed assignment to an immutable variable".into());
                        }
                        let mut b = vec![];
                        let i = self.expr(&ix.index, &mut b)?;
                        let x = self.expr(&a.right, &mut b)?;
                        b.push((coq_ident(&v), format!("rs_upd {} {} {}", coq_ident(&v), i, x)));
                        let k = self.flow(rest, fin)?;
                        Ok(wrap(&b, &k))
                    }
                    _ if matches!(strip(&a.right), Expr::Match(m) if m.arms.iter().any(|arm| matches!(strip(&arm.body), Expr::Return(_) | Expr::Break(_) | Expr::Continue(_)))) => {
                        // x = match s { P => e, Q => return r };   ==   match s { P => { x = e; } Q => return r }
                        let m = match strip(&a.right) {
                            Expr::Match(m) => m.clone(),
                            _ => unreachable!(),
                        };
                        let mut m2 = m.clone();
                        for arm in m2.arms.iter_mut() {
                            if !matches!(strip(&arm.body), Expr::Return(_) | Expr::Break(_) | Expr::Continue(_)) {
                                let asg = Expr::Assign(syn::ExprAssign { attrs: vec![], left: a.left.clone(), eq_token: a.eq_token, right: arm.body.clone() });
                                let blk = syn::Block { brace_token: Default::default(), stmts: vec![Stmt::Expr(asg, Some(Default::default()))] };
                                arm.body = Box::new(Expr::Block(syn::ExprBlock { attrs: vec![], label: None, block: blk }));
                            }
                        }
                        let e2 = Expr::Match(m2);
                        self.flow_stmt(&e2, rest, fin)
                    }
                    _ => {
                        let v = local_name(&a.left).ok_or("assignment to something other than a local variable")?;
                        if !self.is_mut_local(&v) {
                            return Err(format!("assignment to `{}` which is not a mutable local", v));
                        }
                        let ty = self.lookup_local(&v).unwrap_or(Ty::Word);
                        self.check_mix(&a.left, &a.right)?;
                        let mut b = vec![];
                        let x = self.expr_h(&a.right, &ty, &mut b)?;
                        let k = self.flow(rest, fin)?;
                        Ok(wrap(&b, &format!("let {} := {} in {}", coq_ident(&v), x, k)))
                    }
                }
            }
            Expr::Binary(bi) if matches!(bi.op, BinOp::AddAssign(_) | BinOp::SubAssign(_)) => {
                let v = local_name(&bi.left).ok_or("compound assignment to something other than a local variable")?;
                if !self.is_mut_local(&v) {
                    return Err(format!("assignment to `{}` which is not a mutable local", v));
                }
                let ty = self.lookup_local(&v).unwrap_or(Ty::Word);
                self.check_mix(&bi.left, &bi.right)?;
                let mut b = vec![];
                let r = self.expr_h(&bi.right, &ty, &mut b)?;
                let cv = coq_ident(&v);
                match (&bi.op, &ty) {
                    (BinOp::AddAssign(_), Ty::U8 | Ty::Level) => b.push((cv.clone(), format!("rs_add8 {} {}", cv, r))),
                    (BinOp::AddAssign(_), _) => b.push((cv.clone(), format!("Ok ({} + {})", cv, r))),
                    (_, _) => b.push((cv.clone(), format!("rs_subn {} {}", cv, r))),
                }
                let k = self.flow(rest, fin)?;
                Ok(wrap(&b, &k))
            }
            Expr::If(i) => {
                let w = self.writes_expr(e);
                let comp = self.flow_if(i, &w)?;
                self.rejoin(&w, &comp, rest, fin)
            }
            Expr::Match(m) => {
                let w = self.writes_expr(e);
                let comp = self.flow_match(m, &w)?;
                self.rejoin(&w, &comp, rest, fin)
            }
            Expr::Block(bl) => {
                let w = self.writes_expr(e);
                let comp = self.flow_block(&bl.block, &w)?;
                self.rejoin(&w, &comp, rest, fin)
            }
            Expr::ForLoop(fl) => self.flow_for(fl, rest, fin),
            Expr::Macro(m) => self.flow_macro(&m.mac, rest, fin),
            Expr::Tuple(t) if t.elems.is_empty() => self.flow(rest, fin),
            Expr::MethodCall(m) if m.method == "extend" && m.args.len() == 1 && local_name(&m.receiver).map(|v| self.is_mut_local(&v) && self.lookup_local(&v) != Some(Ty::Str)).unwrap_or(false) => {
                // v.extend(repeat(x).take(n))
                let v = coq_ident(&local_name(&m.receiver).unwrap());
                let (x, n) = match strip(&m.args[0]) {
                    Expr::MethodCall(t) if t.method == "take" && t.args.len() == 1 => match strip(&t.receiver) {
                        Expr::Call(r) if matches!(strip(&r.func), Expr::Path(p) if last_ident(&p.path) == "repeat") && r.args.len() == 1 => (r.args[0].clone(), t.args[0].clone()),
                        _ => return Err("extend with something other than repeat(x).take(n)".into()),
                    },
                    _ => return Err("extend with something other than repeat(x).take(n)".into()),
                };
                let mut b = vec![];
                let xv = self.expr(&x, &mut b)?;
                let nv = self.expr_h(&n, &Ty::Word, &mut b)?;
                let k = self.flow(rest, fin)?;
                Ok(wrap(&b, &format!("let {} := {} ++ repeat {} {} in {}", v, v, xv, nv, k)))
            }
            Expr::MethodCall(m) if matches!(m.method.to_string().as_str(), "push_str" | "extend") && m.args.len() == 1
                && local_name(&m.receiver).map(|v| self.is_mut_local(&v) && self.lookup_local(&v) == Some(Ty::Str)).unwrap_or(false) => {
                // String::push_str(&s) / String::extend(chars): append
                let v = coq_ident(&local_name(&m.receiver).unwrap());
                let mut b = vec![];
                let x = self.expr(&m.args[0], &mut b)?;
                let k = self.flow(rest, fin)?;
                Ok(wrap(&b, &format!("let {} := {} ++ {} in {}", v, v, x, k)))
            }
            Expr::MethodCall(m) if matches!(m.method.to_string().as_str(), "push" | "pop" | "clear") && local_name(&m.receiver).map(|v| self.is_mut_local(&v)).unwrap_or(false) => {
                let v = coq_ident(&local_name(&m.receiver).unwrap());
                let mut b = vec![];
                let upd = match (m.method.to_string().as_str(), m.args.len()) {
                    ("push", 1) => {
                        let x = self.expr(&m.args[0], &mut b)?;
                        format!("{} ++ [{}]", v, x)
                    }
                    ("pop", 0) => format!("removelast {}", v),
                    ("clear", 0) => "[]".to_string(),
                    _ => return Err("Vec method arity".into()),
                };
                let k = self.flow(rest, fin)?;
                Ok(wrap(&b, &format!("let {} := {} in {}", v, upd, k)))
            }
            Expr::While(w) if !w.body.stmts.is_empty() => {
                // `while cond { body }` on explicit fuel (RsPrelude.rs_while): the state is the variables the body assigns
                if w.label.is_some() {
                    return Err("labelled loop".into());
                }
                let wr = self.writes_block(&w.body.stmts);
                let (cond, body) = if let Expr::Let(l) = strip(&w.cond) {
                    // `while let P = e { body }`  ==  `loop { match e { P => body, _ => break } }`
                    let mut cb = vec![];
                    let scrut = self.expr(&l.expr, &mut cb)?;
                    let sty = self.infer(&l.expr);
                    let (p, vars) = self.pattern(&l.pat)?;
                    let n0 = self.locals.len();
                    let inner = match &sty {
                        Ty::Opt(t) => (**t).clone(),
                        _ => Ty::Unknown,
                    };
                    for v in vars {
                        self.locals.push((v, inner.clone(), false));
                    }
                    self.loops.push(wr.clone());
                    let body = self.flow_block(&w.body, &wr);
                    self.loops.pop();
                    self.locals.truncate(n0);
                    let body = body?;
                    ("Ok true".to_string(), wrap(&cb, &format!("match {} with | {} => {} | _ => Ok (Brk {}) end", scrut, p, body, self.tuple(&wr))))
                } else {
                    let mut cb = vec![];
                    let c = self.expr(&w.cond, &mut cb)?;
                    let cond = wrap(&cb, &format!("Ok {}", paren(&c)));
                    self.loops.push(wr.clone());
                    let body = self.flow_block(&w.body, &wr);
                    self.loops.pop();
                    (cond, body?)
                };
                self.uses_fuel = true;
                let k = self.flow(rest, fin)?;
                let vars_t = if wr.is_empty() { "_".to_string() } else { format!("({})", wr.iter().map(|v| coq_ident(v)).collect::<Vec<_>>().join(", ")) };
                let st_ty = if wr.is_empty() {
                    "unit".to_string()
                } else {
                    wr.iter().map(|v| ty_coq(&self.lookup_local(v).unwrap_or(Ty::Unknown))).collect::<Vec<_>>().join(" * ")
                };
                let st_pat = if wr.is_empty() { "(_ : unit)".to_string() } else { format!("'({} : {})", vars_t, st_ty) };
                Ok(format!(
                    "f <- rs_while fuel (fun {} => {}) (fun {} => {}) {} ;; match f with Go {} => {} | Ret r => Ok (Ret r) | _ => Panic site_flow end",
                    st_pat,
                    cond,
                    st_pat,
                    body,
                    self.tuple(&wr),
                    vars_t,
                    k
                ))
            }
            Expr::Loop(lp) => {
                // `loop { body }`  ==  `while true { body }`
                if lp.label.is_some() {
                    return Err("labelled loop".into());
                }
                let wr = self.writes_block(&lp.body.stmts);
                self.loops.push(wr.clone());
                let body = self.flow_block(&lp.body, &wr);
                self.loops.pop();
                let body = body?;
                self.uses_fuel = true;
                let k = self.flow(rest, fin)?;
                let vars_t = if wr.is_empty() { "_".to_string() } else { format!("({})", wr.iter().map(|v| coq_ident(v)).collect::<Vec<_>>().join(", ")) };
                let st_ty = if wr.is_empty() {
                    "unit".to_string()
                } else {
                    wr.iter().map(|v| ty_coq(&self.lookup_local(v).unwrap_or(Ty::Unknown))).collect::<Vec<_>>().join(" * ")
                };
                let st_pat = if wr.is_empty() { "(_ : unit)".to_string() } else { format!("'({} : {})", vars_t, st_ty) };
                Ok(format!(
                    "f <- rs_while fuel (fun {} => Ok true) (fun {} => {}) {} ;; match f with Go {} => {} | Ret r => Ok (Ret r) | _ => Panic site_flow end",
                    st_pat,
                    st_pat,
                    body,
                    self.tuple(&wr),
                    vars_t,
                    k
                ))
            }
            Expr::MethodCall(m) if m.method == "reverse" && m.args.is_empty() && matches!(strip(&m.receiver), Expr::Index(ix) if self.infer(&ix.index) == Ty::Range) => {
                // v[a..b].reverse();
                let ix = match strip(&m.receiver) {
                    Expr::Index(ix) => ix,
                    _ => unreachable!(),
                };
                let v = local_name(&ix.expr).ok_or("reverse of a range of a non-variable")?;
                if !self.is_mut_local(&v) {
                    return Err("reverse of a range of an immutable variable".into());
                }
                let mut b = vec![];
                let (from, to) = match strip(&ix.index) {
                    Expr::Range(r) if matches!(r.limits, syn::RangeLimits::HalfOpen(_)) && r.start.is_some() && r.end.is_some() => {
                        let from = self.expr_h(r.start.as_ref().unwrap(), &Ty::Word, &mut b)?;
                        let to = self.expr_h(r.end.as_ref().unwrap(), &Ty::Word, &mut b)?;
                        (from, to)
                    }
                    Expr::Range(_) => return Err("reverse of a range that is not a..b".into()),
                    e => {
                        // a Range<usize> value
                        let r = self.expr(e, &mut b)?;
                        (format!("(fst {})", r), format!("(snd {})", r))
                    }
                };
                let cv = coq_ident(&v);
                b.push((cv.clone(), format!("rs_reverse_range {} {} {}", cv, from, to)));
                let k = self.flow(rest, fin)?;
                Ok(wrap(&b, &k))
            }
            Expr::While(w) => {
                // `while !matches!(v.pop(), PAT) {}`: pop until a popped value matches PAT (or the vector is empty)
                let err = "only the idiom `while !matches!(v.pop(), PAT) {}` is supported for a while loop with an empty body";
                if !w.body.stmts.is_empty() || w.label.is_some() {
                    return Err(err.into());
                }
                let inner = match strip(&w.cond) {
                    Expr::Unary(u) if matches!(u.op, UnOp::Not(_)) => match strip(&u.expr) {
                        Expr::Macro(m) if last_ident(&m.mac.path) == "matches" => m.mac.clone(),
                        _ => return Err(err.into()),
                    },
                    _ => return Err(err.into()),
                };
                let parsed: MatchesArgs = syn::parse2(inner.tokens.clone()).map_err(|e| format!("matches!: {}", e))?;
                let v = match strip(&parsed.scrutinee) {
                    Expr::MethodCall(m) if m.method == "pop" && m.args.is_empty() => local_name(&m.receiver).ok_or(err)?,
                    _ => return Err(err.into()),
                };
                if !self.is_mut_local(&v) {
                    return Err(err.into());
                }
                let (p, vars) = self.pattern(&parsed.pat)?;
                if !vars.is_empty() {
                    return Err("matches! with binders".into());
                }
                let cv = coq_ident(&v);
                let k = self.flow(rest, fin)?;
                Ok(format!("let {} := rs_pop_until (fun o => match o with {} => true | _ => false end) {} in {}", cv, p, cv, k))
            }
            Expr::MethodCall(m) => {
                let mut b = vec![];
                self.mut_method_stmt(m, &mut b)?;
                let k = self.flow(rest, fin)?;
                Ok(wrap(&b, &k))
            }
            _ => Err(format!("unsupported statement: {}", kind(e))),
        }
    }

    /// the types of the `ref mut` binders of [p] (in binding order), given the type of the matched value
    fn ref_mut_types(&self, p: &Pat, t: &Ty) -> Vec<Ty> {
        match (p, t) {
            (Pat::TupleStruct(ts), Ty::Opt(inner)) if ts.elems.len() == 1 => self.ref_mut_types(&ts.elems[0], inner),
            (Pat::Tuple(tp), Ty::Tup(tys)) => tp.elems.iter().zip(tys.iter()).flat_map(|(a, b)| self.ref_mut_types(a, b)).collect(),
            (Pat::Ident(_), t) => vec![t.clone()],
            (Pat::Reference(r), t) => self.ref_mut_types(&r.pat, t),
            (Pat::Paren(r), t) => self.ref_mut_types(&r.pat, t),
            _ => vec![],
        }
    }

    /// `v[i].raise(2).expect("..")` / `v[i].raise(2)` / `x.lower(1).unwrap()` as a statement: a `&mut self`
    /// method of Level applied to a place; the place is written back, `expect` panics on Err.
    fn mut_method_stmt(&mut self, m: &syn::ExprMethodCall, b: &mut Binds) -> R<()> {
        let name = m.method.to_string();
        let (call, expect) = if name == "expect" || name == "unwrap" {
            match strip(&m.receiver) {
                Expr::MethodCall(inner) => (inner, true),
                _ => return Err("expect/unwrap statement on something other than a method call".into()),
            }
        } else {
            (m, false)
        };
        let mname = call.method.to_string();
        let coq = self
            .all_done
            .iter()
            .find(|((s, l, n), _)| s == "level" && l.as_deref() == Some("Level") && *n == mname)
            .map(|(_, (c, _))| c.clone())
            .ok_or(format!("statement call to `{}` which is not a translated Level method", mname))?;
        let is_mut = matches!(mname.as_str(), "raise" | "raise_explicit" | "lower");
        if !is_mut {
            return Err(format!("method `{}` used as a statement", mname));
        }
        let a = self.args(&call.args, b)?;
        let pair = self.fresh("mr");
        match strip(&call.receiver) {
            Expr::Index(ix) => {
                let v = local_name(&ix.expr).ok_or("mutating method on an element of a non-variable")?;
                if !self.is_mut_local(&v) {
                    return Err("mutating method on an element of an immutable variable".into());
                }
                let i = self.expr(&ix.index, b)?;
                let cur = self.fresh("ix");
                b.push((cur.clone(), format!("rs_index {} {}", coq_ident(&v), i)));
                b.push((pair.clone(), format!("{} {} {}", coq, cur, a.join(" "))));
                b.push((coq_ident(&v), format!("rs_upd {} {} (fst {})", coq_ident(&v), i, pair)));
            }
            e => {
                let v = local_name(e).ok_or("mutating method on something other than a variable or an element")?;
                if !self.is_mut_local(&v) {
                    return Err("mutating method on an immutable variable".into());
                }
                b.push((pair.clone(), format!("{} {} {}", coq, coq_ident(&v), a.join(" "))));
                b.push((coq_ident(&v), format!("Ok (fst {})", pair)));
            }
        }
        if expect {
            b.push(("_".into(), format!("rs_expect (snd {})", pair)));
        }
        Ok(())
    }

    fn flow_if(&mut self, i: &syn::ExprIf, w: &[String]) -> R<String> {
        if let Expr::Let(l) = strip(&i.cond) {
            // if let PAT = e { A } else { B }
            let mut b = vec![];
            let s = self.expr(&l.expr, &mut b)?;
            let pty = self.payload_ty(&l.expr);
            let (p, vars) = self.pattern(&l.pat)?;
            // binders alias the local's parts when they are `ref mut`, or when the local itself holds `&mut` references
            // (a by-value parameter such as Option<(&mut Vec<_>, &mut Vec<_>)>) and is destructured by value
            let aliased = pat_has_ref_mut(&l.pat)
                || local_name(&l.expr).map(|t| self.f.params.iter().any(|p| p.0 == t && p.2 && matches!(p.1, Ty::Opt(_)))).unwrap_or(false);
            if aliased {
                // `if let Some((ref mut a, ref mut b)) = x { ..mutate a, b.. }`: a and b alias the parts of the local x; the
                // then-branch runs with a, b as mutable variables and x is rebuilt from them when it completes
                let target = local_name(&l.expr).ok_or("`ref mut` pattern on something other than a local")?;
                if !self.is_mut_local(&target) || i.else_branch.is_some() {
                    return Err("`ref mut` pattern: unsupported shape".into());
                }
                let tys = self.ref_mut_types(&l.pat, &self.lookup_local(&target).unwrap_or(Ty::Unknown));
                let n0 = self.locals.len();
                for (k, v) in vars.iter().enumerate() {
                    self.locals.push((v.clone(), tys.get(k).cloned().unwrap_or(Ty::Unknown), true));
                }
                let mut inner_w: Vec<String> = w.iter().filter(|x| **x != target).cloned().collect();
                for v in &vars {
                    if !inner_w.contains(v) {
                        inner_w.push(v.clone());
                    }
                }
                let t = self.flow_block(&i.then_branch, &inner_w);
                self.locals.truncate(n0);
                let t = t?;
                let rebuilt = p.clone(); // the pattern text is also the constructor expression
                let inner_pat = if inner_w.is_empty() { "_".to_string() } else { format!("({})", inner_w.iter().map(|v| coq_ident(v)).collect::<Vec<_>>().join(", ")) };
                let outer = self.tuple(w);
                let el = format!("Ok (Go {})", outer);
                let cont = format!(
                    "f <- {} ;; match f with Go {} => let {} := {} in Ok (Go {}) | Brk b => Ok (Brk b) | Cnt b => Ok (Cnt b) | Ret r => Ok (Ret r) end",
                    paren(&t), inner_pat, coq_ident(&target), rebuilt, outer
                );
                return Ok(wrap(&b, &format!("match {} with {} => {} | _ => {} end", s, p, cont, el)));
            }
            let n0 = self.locals.len();
            for v in vars {
                self.locals.push((v, if pty == Ty::Unknown { Ty::Word } else { pty.clone() }, false));
            }
            let t = self.flow_block(&i.then_branch, w);
            self.locals.truncate(n0);
            let el = match &i.else_branch {
                Some((_, e)) => self.flow_expr_as_block(e, w)?,
                None => format!("Ok (Go {})", self.tuple(w)),
            };
            return Ok(wrap(&b, &format!("match {} with {} => {} | _ => {} end", s, p, t?, el)));
        }
        let mut b = vec![];
        let c = self.expr(&i.cond, &mut b)?;
        let t = self.flow_block(&i.then_branch, w)?;
        let el = match &i.else_branch {
            Some((_, e)) => match &**e {
                Expr::If(i2) => self.flow_if(i2, w)?,
                e => self.flow_expr_as_block(e, w)?,
            },
            None => format!("Ok (Go {})", self.tuple(w)),
        };
        Ok(wrap(&b, &format!("if {} then {} else {}", c, t, el)))
    }

    fn flow_match(&mut self, m: &syn::ExprMatch, w: &[String]) -> R<String> {
        let mut b = vec![];
        let s = self.expr(&m.expr, &mut b)?;
        let pty = self.payload_ty(&m.expr);
        let guarded = m.arms.iter().any(|a| a.guard.is_some());
        if !guarded {
            let mut arms = vec![];
            for a in &m.arms {
                let (p, vars) = self.pattern(&a.pat)?;
                let n0 = self.locals.len();
                for v in vars {
                    self.locals.push((v, pty.clone(), false));
                }
                let body = self.flow_expr_as_block(&a.body, w);
                self.locals.truncate(n0);
                arms.push(format!("| {} => {}", p, body?));
            }
            return Ok(wrap(&b, &format!("match {} with {} end", s, arms.join(" "))));
        }
        // with guards: first arm whose (binder-free) pattern matches and whose guard holds
        let sv = self.fresh("m");
        let mut chain = format!("Ok (Go {})", self.tuple(w)); // unreachable when the last arm is `_`
        for a in m.arms.iter().rev() {
            let (p, vars) = self.pattern(&a.pat)?;
            if !vars.is_empty() {
                return Err("match with guards and binders".into());
            }
            let body = self.flow_expr_as_block(&a.body, w)?;
            let test = if p == "_" { "true".to_string() } else { format!("(match {} with {} => true | _ => false end)", sv, p) };
            match &a.guard {
                None => {
                    chain = if p == "_" { body } else { format!("if {} then {} else {}", test, body, chain) };
                }
                Some((_, g)) => {
                    let mut gb = vec![];
                    let gc = self.expr(g, &mut gb)?;
                    if !gb.is_empty() {
                        return Err("match guard with effects".into());
                    }
                    chain = format!("if ({} && {}) then {} else {}", test, gc, body, chain);
                }
            }
        }
        Ok(wrap(&b, &format!("let {} := {} in {}", sv, s, chain)))
    }

    fn flow_for(&mut self, fl: &syn::ExprForLoop, rest: &[Stmt], fin: &[String]) -> R<String> {
        if fl.label.is_some() {
            return Err("labelled loop".into());
        }
        // `for x in &mut v[a..b] { *x = e; }`  ->  range assignment
        if let Some(r) = self.range_assign(fl)? {
            let k = self.flow(rest, fin)?;
            return Ok(format!("{}{}", r, k));
        }
        let mut b = vec![];
        let coll = match strip(&fl.expr) {
            Expr::Range(r) if matches!(r.limits, syn::RangeLimits::HalfOpen(_)) && r.start.is_some() && r.end.is_some() => {
                let from = self.expr_h(r.start.as_ref().unwrap(), &Ty::Word, &mut b)?;
                let to = self.expr_h(r.end.as_ref().unwrap(), &Ty::Word, &mut b)?;
                format!("(rs_range {} {})", from, to)
            }
            _ => self.expr(&fl.expr, &mut b)?,
        };
        let elem = match self.infer(&fl.expr) {
            Ty::Slice(t) => *t,
            _ => match self.infer(strip_iter(&fl.expr)) {
                Ty::Slice(t) => *t,
                _ => Ty::Unknown,
            },
        };
        let w = self.writes_block(&fl.body.stmts);
        let (p, vars) = self.pattern(&fl.pat)?;
        let n0 = self.locals.len();
        let is_indices = matches!(strip(&fl.expr), Expr::MethodCall(m) if m.method == "char_indices");
        let nvars = vars.len();
        for (k, v) in vars.into_iter().enumerate() {
            let t = if is_indices {
                if k == 0 {
                    Ty::Word
                } else {
                    Ty::Char
                }
            } else if let (Ty::Tup(ts), true) = (&elem, matches!(&elem, Ty::Tup(ts) if ts.len() == nvars)) {
                ts[k].clone()
            } else if elem != Ty::Unknown {
                elem.clone()
            } else if matches!(strip(&fl.expr), Expr::MethodCall(m) if m.method == "chars") {
                Ty::Char
            } else if matches!(strip(&fl.expr), Expr::Range(_)) {
                Ty::Word
            } else {
                Ty::Unknown
            };
            self.locals.push((v, t, false));
        }
        self.loops.push(w.clone());
        let body = self.flow(&fl.body.stmts, &w);
        self.loops.pop();
        self.locals.truncate(n0);
        let body = body?;
        let k = self.flow(rest, fin)?;
        let vars_t = if w.is_empty() { "_".to_string() } else { format!("({})", w.iter().map(|v| coq_ident(v)).collect::<Vec<_>>().join(", ")) };
        // the state binder carries its type, so that elaboration of the body does not depend on inference order
        let st_ty = if w.is_empty() {
            "unit".to_string()
        } else {
            w.iter().map(|v| ty_coq(&self.lookup_local(v).unwrap_or(Ty::Unknown))).collect::<Vec<_>>().join(" * ")
        };
        let st_pat = if w.is_empty() { "(_ : unit)".to_string() } else { format!("'({} : {})", vars_t, st_ty) };
        Ok(wrap(
            &b,
            &format!(
                "f <- rs_loop (fun {} '{} => {}) {} {} ;; match f with Go {} => {} | Ret r => Ok (Ret r) | _ => Panic site_flow end",
                st_pat,
                p,
                body,
                self.tuple(&w),
                coll,
                vars_t,
                k
            ),
        ))
    }

    fn range_assign(&mut self, fl: &syn::ExprForLoop) -> R<Option<String>> {
        // for x in &mut v[a..b] { *x = e; }   /  &mut v[a..]
        let (v, range) = match &*fl.expr {
            Expr::Reference(r) if r.mutability.is_some() => match strip(&r.expr) {
                Expr::Index(ix) => match (local_name(&ix.expr), strip(&ix.index)) {
                    (Some(v), Expr::Range(rg)) => (v, rg.clone()),
                    _ => return Ok(None),
                },
                _ => return Ok(None),
            },
            _ => return Ok(None),
        };
        let x = match &*fl.pat {
            Pat::Ident(i) => i.ident.to_string(),
            _ => return Ok(None),
        };
        if fl.body.stmts.len() != 1 {
            return Ok(None);
        }
        let rhs = match &fl.body.stmts[0] {
            Stmt::Expr(Expr::Assign(a), _) => match &*a.left {
                Expr::Unary(u) if matches!(u.op, UnOp::Deref(_)) && local_name(&u.expr).as_deref() == Some(&x) => &a.right,
                _ => return Ok(None),
            },
            _ => return Ok(None),
        };
        if !self.is_mut_local(&v) {
            return Err("range assignment to an immutable variable".into());
        }
        if !matches!(range.limits, syn::RangeLimits::HalfOpen(_)) {
            return Err("inclusive range in a range assignment".into());
        }
        let mut b = vec![];
        let from = match &range.start {
            Some(e) => self.expr_h(e, &Ty::Word, &mut b)?,
            None => "0%nat".into(),
        };
        let cv = coq_ident(&v);
        let comp = match &range.end {
            Some(e) => {
                let to = self.expr_h(e, &Ty::Word, &mut b)?;
                let val = self.expr(rhs, &mut b)?;
                format!("rs_set_range {} {} {} {}", cv, from, to, val)
            }
            None => {
                let val = self.expr(rhs, &mut b)?;
                format!("rs_set_from {} {} {}", cv, from, val)
            }
        };
        b.push((cv, comp));
        let mut s = String::new();
        for (x, c) in &b {
            s.push_str(&format!("{} <- {} ;; ", x, paren(c)));
        }
        Ok(Some(s))
    }
}

/// `#[cfg(feature = "x")]` on a statement: Some(false) = not part of the default build (smallvec, flame_it, serde off),
/// Some(true) = part of it (`not(feature = ...)` of those), None = no cfg attribute
fn cfg_keeps(attrs: &[syn::Attribute]) -> Option<bool> {
    for a in attrs {
        if a.path().is_ident("cfg") {
            let txt = a.meta.require_list().map(|l| l.tokens.to_string()).unwrap_or_default().replace(' ', "");
            let off = ["feature=\"smallvec\"", "feature=\"flame_it\"", "feature=\"serde\""];
            if let Some(inner) = txt.strip_prefix("not(").and_then(|x| x.strip_suffix(')')) {
                if off.contains(&inner) {
                    return Some(true);
                }
            }
            if off.contains(&txt.as_str()) {
                return Some(false);
            }
        }
    }
    None
}

fn ty_coq(t: &Ty) -> String {
    match t {
        Ty::U8 | Ty::Word | Ty::Level => "nat".into(),
        Ty::Char | Ty::U16 => "N".into(),
        Ty::Bool => "bool".into(),
        Ty::Class => "bclass".into(),
        Ty::Unit => "unit".into(),
        Ty::Opt(t) => format!("option ({})", ty_coq(t)),
        Ty::Slice(t) => format!("list ({})", ty_coq(t)),
        Ty::Text => "list N".into(),
        Ty::Source => "rs_data_source".into(),
        Ty::Rec(n) | Ty::Enum(n) => n.clone(),
        Ty::Range => "(nat * nat)".into(),
        Ty::Str => "list N".into(),
        Ty::Tup(ts) => format!("({})", ts.iter().map(|t| ty_coq(t)).collect::<Vec<_>>().join(" * ")),
        _ => "_".into(),
    }
}

fn strip_iter(e: &Expr) -> &Expr {
    match strip(e) {
        Expr::MethodCall(m) if matches!(m.method.to_string().as_str(), "iter" | "into_iter" | "copied" | "cloned") => strip_iter(&m.receiver),
        e => e,
    }
}

/// variables assigned anywhere inside a statement / expression (syntactic)
struct Writes {
    set: BTreeSet<String>,
}
impl<'ast> Visit<'ast> for Writes {
    fn visit_expr_assign(&mut self, a: &'ast syn::ExprAssign) {
        match strip(&a.left) {
            Expr::Index(ix) => {
                if let Some(v) = local_name(&ix.expr) {
                    self.set.insert(v);
                }
            }
            l => {
                if let Some(v) = local_name(l) {
                    self.set.insert(v);
                }
            }
        }
        syn::visit::visit_expr_assign(self, a);
    }
    fn visit_expr_binary(&mut self, b: &'ast syn::ExprBinary) {
        if matches!(b.op, BinOp::AddAssign(_) | BinOp::SubAssign(_) | BinOp::MulAssign(_) | BinOp::BitOrAssign(_) | BinOp::BitAndAssign(_)) {
            if let Some(v) = local_name(&b.left) {
                self.set.insert(v);
            }
        }
        syn::visit::visit_expr_binary(self, b);
    }
    fn visit_expr_method_call(&mut self, m: &'ast syn::ExprMethodCall) {
        if matches!(m.method.to_string().as_str(), "push" | "pop" | "clear" | "truncate" | "extend" | "push_str") {
            if let Some(v) = local_name(&m.receiver) {
                self.set.insert(v);
            }
        }
        if m.method == "reverse" {
            if let Expr::Index(ix) = strip(&m.receiver) {
                if let Some(v) = local_name(&ix.expr) {
                    self.set.insert(v);
                }
            }
        }
        if matches!(m.method.to_string().as_str(), "raise" | "raise_explicit" | "lower") {
            match strip(&m.receiver) {
                Expr::Index(ix) => {
                    if let Some(v) = local_name(&ix.expr) {
                        self.set.insert(v);
                    }
                }
                e => {
                    if let Some(v) = local_name(e) {
                        self.set.insert(v);
                    }
                }
            }
        }
        syn::visit::visit_expr_method_call(self, m);
    }
    fn visit_expr_let(&mut self, l: &'ast syn::ExprLet) {
        if pat_has_ref_mut(&l.pat) || matches!(strip(&l.expr), Expr::Path(p) if last_ident(&p.path) == "split_paragraphs") {
            if let Some(v) = local_name(&l.expr) {
                self.set.insert(v);
            }
        }
        syn::visit::visit_expr_let(self, l);
    }
    fn visit_macro(&mut self, m: &'ast syn::Macro) {
        // `matches!(v.pop(), ..)` mutates v
        if last_ident(&m.path) == "matches" {
            if let Ok(parsed) = syn::parse2::<MatchesArgs>(m.tokens.clone()) {
                self.visit_expr(&parsed.scrutinee);
            }
        }
    }
    fn visit_expr_for_loop(&mut self, fl: &'ast syn::ExprForLoop) {
        // for x in &mut v[..] { *x = .. } writes v
        if let Expr::Reference(r) = &*fl.expr {
            if r.mutability.is_some() {
                if let Expr::Index(ix) = strip(&r.expr) {
                    if let Some(v) = local_name(&ix.expr) {
                        self.set.insert(v);
                    }
                }
            }
        }
        syn::visit::visit_expr_for_loop(self, fl);
    }
}

/// the argument of the first `var.push(x)`
struct FirstPush {
    var: String,
    arg: Option<Expr>,
}
impl<'ast> Visit<'ast> for FirstPush {
    fn visit_expr_method_call(&mut self, m: &'ast syn::ExprMethodCall) {
        if self.arg.is_none() && m.method == "push" && m.args.len() == 1 && local_name(&m.receiver).as_deref() == Some(self.var.as_str()) {
            self.arg = Some(m.args[0].clone());
        }
        syn::visit::visit_expr_method_call(self, m);
    }
}

/// does the body need flow mode?
struct NeedsFlow {
    yes: bool,
}
impl<'ast> Visit<'ast> for NeedsFlow {
    fn visit_local(&mut self, l: &'ast syn::Local) {
        if matches!(strip_pat_type(&l.pat), Pat::Ident(i) if i.mutability.is_some()) {
            self.yes = true;
        }
        syn::visit::visit_local(self, l);
    }
    fn visit_expr_break(&mut self, _: &'ast syn::ExprBreak) {
        self.yes = true;
    }
    fn visit_expr_return(&mut self, _: &'ast syn::ExprReturn) {
        self.yes = true; // early returns: statement lists with control flow
    }
    fn visit_expr_closure(&mut self, _: &'ast syn::ExprClosure) {
        // a `return` inside a closure belongs to the closure
    }
    fn visit_expr_continue(&mut self, _: &'ast syn::ExprContinue) {
        self.yes = true;
    }
}

struct MatchesArgs {
    scrutinee: Expr,
    pat: Pat,
}
impl syn::parse::Parse for MatchesArgs {
    fn parse(input: syn::parse::ParseStream) -> syn::Result<Self> {
        let scrutinee: Expr = input.parse()?;
        input.parse::<syn::Token![,]>()?;
        let pat = Pat::parse_multi_with_leading_vert(input)?;
        let _ = input.parse::<Option<syn::Token![,]>>();
        Ok(MatchesArgs { scrutinee, pat })
    }
}

struct VecArgs {
    elems: Vec<Expr>,
}
impl syn::parse::Parse for VecArgs {
    fn parse(input: syn::parse::ParseStream) -> syn::Result<Self> {
        let p = syn::punctuated::Punctuated::<Expr, syn::Token![,]>::parse_terminated(input)?;
        Ok(VecArgs { elems: p.into_iter().collect() })
    }
}

struct AssertArgs {
    a: Expr,
    b: Option<Expr>,
}
impl syn::parse::Parse for AssertArgs {
    fn parse(input: syn::parse::ParseStream) -> syn::Result<Self> {
        let a: Expr = input.parse()?;
        let mut b = None;
        if input.parse::<Option<syn::Token![,]>>()?.is_some() && !input.is_empty() {
            b = Some(input.parse()?);
            // trailing message arguments are ignored
            while !input.is_empty() {
                let _: proc_macro2::TokenTree = input.parse()?;
            }
        }
        Ok(AssertArgs { a, b })
    }
}

/// `mut` markers of the binders of [p], in binding order
fn pat_muts(p: &Pat) -> Vec<bool> {
    match p {
        Pat::Ident(i) => vec![i.mutability.is_some()],
        Pat::Tuple(t) => t.elems.iter().flat_map(pat_muts).collect(),
        Pat::Reference(r) => pat_muts(&r.pat),
        Pat::Paren(r) => pat_muts(&r.pat),
        Pat::Type(t) => pat_muts(&t.pat),
        Pat::TupleStruct(ts) => ts.elems.iter().flat_map(pat_muts).collect(),
        _ => vec![],
    }
}

fn pat_has_ref_mut(p: &Pat) -> bool {
    match p {
        Pat::Ident(i) => i.by_ref.is_some() && i.mutability.is_some(),
        Pat::TupleStruct(ts) => ts.elems.iter().any(pat_has_ref_mut),
        Pat::Tuple(t) => t.elems.iter().any(pat_has_ref_mut),
        Pat::Reference(r) => pat_has_ref_mut(&r.pat),
        Pat::Paren(r) => pat_has_ref_mut(&r.pat),
        _ => false,
    }
}

fn strip_pat_type(p: &Pat) -> &Pat {
    match p {
        Pat::Type(t) => &t.pat,
        _ => p,
    }
}

fn pat_var(p: &Pat) -> R<String> {
    match p {
        Pat::Ident(i) => Ok(i.ident.to_string()),
        Pat::Reference(r) => pat_var(&r.pat),
        Pat::Type(t) => pat_var(&t.pat),
        _ => Err("closure parameter is not a variable".into()),
    }
}

fn balanced_outer(t: &str) -> bool {
    if !(t.starts_with('(') && t.ends_with(')')) {
        return false;
    }
    let mut d = 0i32;
    for (i, c) in t.char_indices() {
        match c {
            '(' => d += 1,
            ')' => {
                d -= 1;
                if d == 0 && i != t.len() - 1 {
                    return false;
                }
            }
            _ => {}
        }
    }
    true
}

fn paren(t: &str) -> String {
    if t.contains(' ') && !balanced_outer(t) {
        format!("({})", t)
    } else {
        t.to_string()
    }
}

fn wrap(b: &[(String, String)], k: &str) -> String {
    let mut s = String::new();
    for (x, c) in b {
        s.push_str(&format!("{} <- {} ;; ", x, paren(c)));
    }
    if b.is_empty() {
        k.to_string()
    } else {
        format!("({}{})", s, k)
    }
}

fn coq_ident(n: &str) -> String {
    // every Rust local/parameter gets a prefix, so that it can never be read as a Coq constructor
    // (`pair`, `S`, `L`, ...) or keyword
    format!("v_{}", n)
}

fn kind(e: &Expr) -> &'static str {
    match e {
        Expr::Array(_) => "array",
        Expr::Assign(_) => "assignment",
        Expr::Closure(_) => "closure",
        Expr::ForLoop(_) => "for loop",
        Expr::While(_) => "while loop",
        Expr::Loop(_) => "loop",
        Expr::Struct(_) => "struct literal",
        Expr::Unsafe(_) => "unsafe block",
        Expr::Range(_) => "range",
        Expr::Let(_) => "let condition",
        Expr::Try(_) => "? operator",
        Expr::MethodCall(_) => "method call as a statement",
        Expr::Call(_) => "call as a statement",
        _ => "other",
    }
}

// -------------------------------------------------------------------------------------------------
fn collect(repo: &Path, rel: &str) -> R<FileCtx> {
    let f = parse(repo, rel)?;
    let stem = Path::new(rel).file_stem().unwrap().to_string_lossy().to_string();
    let stem = if stem == "mod" { "char_data".to_string() } else { stem };
    let mut ctx = FileCtx { stem: stem.clone(), int_consts: int_consts(&f), other_consts: BTreeMap::new(), const_types: BTreeMap::new(), enums: BTreeMap::new(), fns: vec![], structs: BTreeMap::new() };
    for it in &f.items {
        if let Item::Struct(st) = it {
            if let syn::Fields::Named(nf) = &st.fields {
                let fields: Vec<(String, Ty)> = nf.named.iter().map(|fd| (fd.ident.as_ref().unwrap().to_string(), ty_of_type(&fd.ty, &st.generics))).collect();
                ctx.structs.insert(st.ident.to_string(), fields);
            }
        }
    }
    // field types that are themselves structs / enums of the file
    let snames: Vec<String> = ctx.structs.keys().cloned().collect();
    let enames: Vec<String> = f.items.iter().filter_map(|it| match it { Item::Enum(e) if e.variants.iter().all(|v| v.fields.is_empty()) && e.ident != "BidiClass" => Some(e.ident.to_string()), _ => None }).collect();
    for it in &f.items {
        if let Item::Struct(st) = it {
            if let syn::Fields::Named(nf) = &st.fields {
                let fields: Vec<(String, Ty)> = nf.named.iter().map(|fd| {
                    let t = ty_of_type(&fd.ty, &st.generics);
                    let tn = match &fd.ty { Type::Path(p) => last_ident(&p.path), _ => String::new() };
                    let t = if t == Ty::Other && snames.contains(&tn) { Ty::Rec(tn) } else if t == Ty::Other && enames.contains(&tn) { Ty::Enum(tn) } else { t };
                    (fd.ident.as_ref().unwrap().to_string(), t)
                }).collect();
                ctx.structs.insert(st.ident.to_string(), fields);
            }
        }
    }
    for it in &f.items {
        match it {
            Item::Const(c) => {
                ctx.const_types.insert(c.ident.to_string(), ty_of_type(&c.ty, &syn::Generics::default()));
                if !ctx.int_consts.contains_key(&c.ident.to_string()) {
                    ctx.other_consts.insert(c.ident.to_string(), (*c.expr).clone());
                }
            }
            Item::Enum(e) if e.variants.iter().all(|v| v.fields.is_empty()) && e.ident != "BidiClass" => {
                ctx.enums.insert(e.ident.to_string(), e.variants.iter().map(|v| v.ident.to_string()).collect());
            }
            Item::Fn(fun) => {
                let name = fun.sig.ident.to_string();
                // functions declared inside the body are functions of the file
                for st in &fun.block.stmts {
                    if let Stmt::Item(Item::Fn(inner)) = st {
                        let iname = inner.sig.ident.to_string();
                        ctx.fns.push(fn_info(&stem, None, Ty::Other, &iname, &inner.sig, &inner.block));
                    }
                }
                ctx.fns.push(fn_info(&stem, None, Ty::Other, &name, &fun.sig, &fun.block));
            }
            Item::Impl(im) => {
                let (self_ty, self_t) = match &*im.self_ty {
                    Type::Path(p) => {
                        let n = last_ident(&p.path);
                        if ctx.structs.contains_key(&n) {
                            (n.clone(), Ty::Struct(n))
                        } else {
                            (n, ty_of_type(&im.self_ty, &im.generics))
                        }
                    }
                    Type::Slice(sl) => match ty_of_type(&sl.elem, &im.generics) {
                        Ty::U16 => ("u16slice".to_string(), Ty::Slice(Box::new(Ty::U16))),
                        _ => continue,
                    },
                    _ => continue,
                };
                let label = match &im.trait_ {
                    None => self_ty.clone(),
                    Some((_, p, _)) => {
                        let seg = p.segments.last().unwrap();
                        let mut l = seg.ident.to_string();
                        if let syn::PathArguments::AngleBracketed(a) = &seg.arguments {
                            for g in &a.args {
                                if let syn::GenericArgument::Type(Type::Path(tp)) = g {
                                    l.push('_');
                                    l.push_str(&last_ident(&tp.path));
                                }
                            }
                        }
                        format!("{}_for_{}", l, self_ty)
                    }
                };
                for ii in &im.items {
                    if let ImplItem::Fn(m) = ii {
                        let name = m.sig.ident.to_string();
                        ctx.fns.push(fn_info(&stem, Some(&label), self_t.clone(), &name, &m.sig, &m.block));
                    }
                }
            }
            _ => {}
        }
    }
    Ok(ctx)
}

fn fn_info(stem: &str, label: Option<&str>, self_ty: Ty, name: &str, sig: &syn::Signature, block: &syn::Block) -> FnInfo {
    let mut has_self = false;
    let mut mut_self = false;
    let mut params = vec![];
    let mut by_value_mut: Vec<syn::Ident> = vec![];
    for a in &sig.inputs {
        match a {
            FnArg::Receiver(r) => {
                has_self = true;
                mut_self = r.mutability.is_some() && r.reference.is_some();
            }
            FnArg::Typed(t) => {
                let n = match &*t.pat {
                    Pat::Ident(i) => i.ident.to_string(),
                    _ => "_".to_string(),
                };
                let holds_mut_refs = {
                    struct F(bool);
                    impl<'ast> Visit<'ast> for F {
                        fn visit_type_reference(&mut self, r: &'ast syn::TypeReference) {
                            if r.mutability.is_some() {
                                self.0 = true;
                            }
                            syn::visit::visit_type_reference(self, r);
                        }
                    }
                    let mut f = F(false);
                    f.visit_type(&t.ty);
                    f.0
                };
                let is_mut_ref = matches!(&*t.ty, Type::Reference(r) if r.mutability.is_some()) || holds_mut_refs;
                if let Pat::Ident(i) = &*t.pat {
                    if i.mutability.is_some() && !is_mut_ref {
                        by_value_mut.push(i.ident.clone());
                    }
                }
                params.push((n, ty_of_type(&t.ty, &sig.generics), is_mut_ref));
            }
        }
    }
    let ret = match &sig.output {
        syn::ReturnType::Default => Ty::Unit,
        syn::ReturnType::Type(_, t) => ty_of_type(t, &sig.generics),
    };
    let (coq, rust) = match label {
        Some(l) => (format!("src_{}_{}_{}", stem, l, name), format!("{}::{}::{}", stem, l, name)),
        None => (format!("src_{}_{}", stem, name), format!("{}::{}", stem, name)),
    };
    // `mut x: T` by value is a local variable initialised with the argument: `let mut x = x;`
    let mut block = block.clone();
    for id in by_value_mut.iter().rev() {
        let st: Stmt = syn::parse_quote! { let mut #id = #id; };
        block.stmts.insert(0, st);
    }
    FnInfo { key: (label.map(|s| s.to_string()), name.to_string()), coq, rust, has_self, self_ty, mut_self, params, ret, item: block }
}

pub const FILES: [&str; 7] = ["src/level.rs", "src/char_data/mod.rs", "src/prepare.rs", "src/implicit.rs", "src/lib.rs", "src/utf16.rs", "src/explicit.rs"];

/// the functions the framework wants translated (others in these files are ignored silently):
/// file stem, Self/trait label ("" = free function), function
pub const FUNCS: &[(&str, &str, &str)] = &[
    ("level", "Level", "ltr"),
    ("level", "Level", "rtl"),
    ("level", "Level", "max_implicit_depth"),
    ("level", "Level", "max_explicit_depth"),
    ("level", "Level", "new"),
    ("level", "Level", "new_explicit"),
    ("level", "Level", "number"),
    ("level", "Level", "is_ltr"),
    ("level", "Level", "is_rtl"),
    ("level", "Level", "raise"),
    ("level", "Level", "raise_explicit"),
    ("level", "Level", "lower"),
    ("level", "Level", "new_explicit_next_ltr"),
    ("level", "Level", "new_explicit_next_rtl"),
    ("level", "Level", "new_lowest_ge_rtl"),
    ("level", "Level", "bidi_class"),
    ("level", "", "has_rtl"),
    ("level", "From_Level_for_u8", "from"),
    ("level", "From_u8_for_Level", "from"),
    ("char_data", "", "is_rtl"),
    ("char_data", "", "bidi_matched_opening_bracket"),
    ("char_data", "", "bsearch_range_value_table"),
    ("char_data", "", "bidi_class"),
    ("prepare", "", "removed_by_x9"),
    ("prepare", "", "not_removed_by_x9"),
    ("implicit", "", "is_NI"),
    ("lib", "", "para_direction"),
    ("lib", "", "get_base_direction_impl"),
    ("lib", "", "reorder_levels"),
    ("lib", "", "assign_levels_to_removed_chars"),
    ("implicit", "", "resolve_levels"),
    ("utf16", "TextSource_for_u16slice", "char_at"),
    ("utf16", "TextSource_for_u16slice", "char_len"),
    ("utf16", "Iterator_for_Utf16IndexLenIter", "next"),
    ("utf16", "Iterator_for_Utf16CharIndexIter", "next"),
    ("utf16", "Iterator_for_Utf16CharIter", "next"),
    ("utf16", "DoubleEndedIterator_for_Utf16CharIter", "next_back"),
    ("explicit", "", "compute"),
    ("lib", "", "compute_initial_info"),
    ("lib", "", "visual_runs_for_line"),
    ("lib", "", "reorder_visual"),
    ("lib", "ParagraphBidiInfo", "has_rtl"),
    ("lib", "ParagraphBidiInfo", "direction"),
    ("lib", "BidiInfo", "has_rtl"),
    ("lib", "", "reorder_line"),
    ("lib", "BidiInfo", "reorder_visual"),
    ("lib", "ParagraphBidiInfo", "reorder_visual"),
];

pub fn translate_all(repo: &Path, report: &mut Report) -> String {
    let mut out = String::new();
    out.push_str("(* GENERATED by rs2v from the working tree's src/{level,char_data/mod,prepare,implicit,lib}.rs — do not edit.\n   One Definition per translated Rust function, in the panic monad of Base.v (see RsPrelude.v). *)\n");
    out.push_str("From BidiVerif Require Import Base ConstsGen TablesGen RsPrelude.\nLocal Open Scope bool_scope.\n\n");
    let mut all_done: BTreeMap<(String, Option<String>, String), (String, Ty)> = BTreeMap::new();
    for rel in FILES {
        let stem0 = if rel.contains("char_data") { "char_data".to_string() } else { Path::new(rel).file_stem().unwrap().to_string_lossy().to_string() };
        let ctx = match collect(repo, rel) {
            Ok(c) => c,
            Err(e) => {
                for (s, l, n) in FUNCS.iter().filter(|(s, _, _)| *s == stem0) {
                    report.skipped.push((format!("{}::{}::{}", s, l, n), format!("file does not parse: {}", e)));
                }
                continue;
            }
        };
        let wanted: Vec<&FnInfo> = ctx
            .fns
            .iter()
            .filter(|f| FUNCS.iter().any(|(s, l, n)| *s == ctx.stem && f.key.1 == *n && f.key.0.as_deref().unwrap_or("") == *l))
            .collect();
        if !wanted.is_empty() {
            for (en, vars) in &ctx.enums {
                out.push_str(&format!(
                    "Inductive {} : Set := {}.\n",
                    en,
                    vars.iter().map(|v| format!("{}_{}", en, v)).collect::<Vec<_>>().join(" | ")
                ));
                // derived PartialEq
                if vars.len() == 1 {
                    out.push_str(&format!("Definition {}_eqb (a b : {}) : bool := true.\n", en, en));
                } else {
                    out.push_str(&format!(
                        "Definition {}_eqb (a b : {}) : bool := match a, b with {} | _, _ => false end.\n",
                        en,
                        en,
                        vars.iter().map(|v| format!("{}_{}, {}_{} => true", en, v, en, v)).collect::<Vec<_>>().join(" | ")
                    ));
                }
            }
            // value structs (all fields of translatable type) become Records; iterator structs hold a slice and are not values
            for (sn, fields) in &ctx.structs {
                if fields.iter().all(|(_, t)| matches!(t, Ty::Level | Ty::U8 | Ty::Word | Ty::Bool | Ty::Class | Ty::Char | Ty::Enum(_) | Ty::Rec(_) | Ty::Range)) {
                    out.push_str(&format!(
                        "Record {} : Set := {{ {} }}.\n",
                        sn,
                        fields.iter().map(|(n, t)| format!("{}_{} : {}", sn, n, ty_coq(t))).collect::<Vec<_>>().join("; ")
                    ));
                }
            }
        }
        for (s, l, n) in FUNCS.iter().filter(|(s, _, _)| *s == ctx.stem) {
            if !wanted.iter().any(|f| f.key.1 == *n && f.key.0.as_deref().unwrap_or("") == *l) {
                let rust = if l.is_empty() { format!("{}::{}", s, n) } else { format!("{}::{}::{}", s, l, n) };
                report.skipped.push((rust, "function not found in the source".into()));
            }
        }
        let excluded: Vec<String> = std::env::var("RS2V_EXCLUDE").unwrap_or_default().split(',').map(|x| x.trim().to_string()).filter(|x| !x.is_empty()).collect();
        let mut done: BTreeMap<(Option<String>, String), String> = BTreeMap::new();
        // helpers: functions of this file that are not in FUNCS but may be called by those that are
        let helpers: Vec<&FnInfo> = ctx.fns.iter().filter(|f| !wanted.iter().any(|w| w.key == f.key) && helper_candidate(f)).collect();
        let mut helper_defs: BTreeMap<(Option<String>, String), String> = BTreeMap::new();
        // first the helpers (several passes), kept aside; they are emitted only if used
        {
            let mut pend: Vec<&FnInfo> = helpers.clone();
            let mut hdone: BTreeMap<(Option<String>, String), String> = BTreeMap::new();
            loop {
                let mut progress = false;
                let mut next = vec![];
                for f in pend {
                    if excluded.contains(&f.rust) {
                        continue;
                    }
                    match translate_fn(&ctx, &hdone, &all_done, f) {
                        Ok(def) => {
                            hdone.insert(f.key.clone(), callee_name(&f.coq, &def));
                            helper_defs.insert(f.key.clone(), def);
                            progress = true;
                        }
                        Err(_) => next.push(f),
                    }
                }
                pend = next;
                if !progress || pend.is_empty() {
                    break;
                }
            }
        }
        let mut pending: Vec<&FnInfo> = wanted.iter().filter(|f| !excluded.contains(&f.rust)).cloned().collect();
        for f in wanted.iter().filter(|f| excluded.contains(&f.rust)) {
            report.skipped.push((f.rust.clone(), "the translated term did not type-check in Coq (excluded by the runner)".into()));
        }
        let mut last_err: BTreeMap<String, String> = BTreeMap::new();
        loop {
            let mut progress = false;
            let mut next = vec![];
            for f in pending {
                // helpers this function mentions are emitted first (with their own helper callees)
                let mut with_helpers = done.clone();
                for (k, _) in &helper_defs {
                    let h = ctx.fns.iter().find(|x| &x.key == k).unwrap();
                    with_helpers.entry(k.clone()).or_insert(callee_name(&h.coq, &helper_defs[k]));
                }
                match translate_fn(&ctx, &with_helpers, &all_done, f) {
                    Ok(def) => {
                        // emit the helpers whose Coq name occurs in the definition (transitively), once
                        let mut stack = vec![def.clone()];
                        let mut order: Vec<(Option<String>, String)> = vec![];
                        while let Some(d) = stack.pop() {
                            for (k, hd) in &helper_defs {
                                let h = ctx.fns.iter().find(|x| &x.key == k).unwrap();
                                if !done.contains_key(k) && !order.contains(k) && mentions(&d, &h.coq) {
                                    order.push(k.clone());
                                    stack.push(hd.clone());
                                }
                            }
                        }
                        // dependencies first: emit in reverse discovery order, repeating until all are out
                        for k in order.iter().rev() {
                            let h = ctx.fns.iter().find(|x| &x.key == k).unwrap();
                            out.push_str(&helper_defs[k]);
                            done.insert(k.clone(), callee_name(&h.coq, &helper_defs[k]));
                            all_done.insert((ctx.stem.clone(), k.0.clone(), k.1.clone()), (callee_name(&h.coq, &helper_defs[k]), h.ret.clone()));
                            report.translated.push((h.rust.clone(), h.coq.clone()));
                        }
                        out.push_str(&def);
                        done.insert(f.key.clone(), callee_name(&f.coq, &def));
                        all_done.insert((ctx.stem.clone(), f.key.0.clone(), f.key.1.clone()), (callee_name(&f.coq, &def), f.ret.clone()));
                        report.translated.push((f.rust.clone(), f.coq.clone()));
                        progress = true;
                    }
                    Err(e) => {
                        last_err.insert(f.rust.clone(), e);
                        next.push(f);
                    }
                }
            }
            pending = next;
            if !progress || pending.is_empty() {
                break;
            }
        }
        for f in pending {
            report.skipped.push((f.rust.clone(), last_err.get(&f.rust).cloned().unwrap_or_default()));
        }
    }
    out
}

/// how a translated function is called: a definition that runs `while` loops takes the fuel first
fn callee_name(coq: &str, def: &str) -> String {
    if def.contains(&format!("Definition {} (fuel : nat)", coq)) || def.contains(&format!("Definition {} (ts : rs_text_source) (fuel : nat)", coq)) {
        format!("{} fuel", coq)
    } else {
        coq.to_string()
    }
}

fn helper_candidate(f: &FnInfo) -> bool {
    // test functions and trait plumbing are never helpers
    !f.rust.contains("::tests::") && !f.key.1.starts_with("test_")
}

/// does the Coq text [d] mention the identifier [name] (as a whole word)?
fn mentions(d: &str, name: &str) -> bool {
    let mut from = 0;
    while let Some(i) = d[from..].find(name) {
        let a = from + i;
        let b = a + name.len();
        let before = d[..a].chars().last().map(|c| c.is_alphanumeric() || c == '_').unwrap_or(false);
        let after = d[b..].chars().next().map(|c| c.is_alphanumeric() || c == '_').unwrap_or(false);
        if !before && !after {
            return true;
        }
        from = b;
    }
    false
}

fn translate_fn(
    ctx: &FileCtx,
    done: &BTreeMap<(Option<String>, String), String>,
    all_done: &BTreeMap<(String, Option<String>, String), (String, Ty)>,
    f: &FnInfo,
) -> R<String> {
    // a method of a named-field struct: the fields are the parameters; the scalar ones are state that is returned
    let mut fcopy;
    let f = if let Ty::Struct(sn) = &f.self_ty {
        fcopy = f.clone();
        let mut ps: Vec<(String, Ty, bool)> = ctx.structs[sn]
            .iter()
            .map(|(n, t)| (format!("self_{}", n), t.clone(), f.mut_self && !matches!(t, Ty::Slice(_))))
            .collect();
        ps.extend(f.params.iter().cloned());
        fcopy.params = ps;
        &fcopy
    } else {
        f
    };
    let is_struct = matches!(f.self_ty, Ty::Struct(_));
    let mut tr = Tr {
        file: ctx,
        done,
        all_done,
        f,
        locals: f.params.iter().map(|(n, t, m)| (n.clone(), t.clone(), *m)).collect(),
        fresh: 0,
        loops: vec![],
        defaulted: BTreeSet::new(),
        in_const: false,
        uses_fuel: false,
    };
    let mut nf = NeedsFlow { yes: f.params.iter().any(|p| p.2) };
    nf.visit_block(&f.item);
    let flow_mode = (nf.yes || is_struct) && (!f.mut_self || is_struct);
    let body = if flow_mode {
        // the trailing expression is the function's value: make it an explicit `return`
        let mut ss: Vec<Stmt> = f.item.stmts.clone();
        let tail_expr = match ss.last() {
            Some(Stmt::Expr(e, None)) if !matches!(e, Expr::If(_) | Expr::Match(_) | Expr::ForLoop(_) | Expr::Block(_)) => Some(e.clone()),
            _ => None,
        };
        if tail_expr.is_some() {
            ss.pop();
        }
        let ret_stmt: Stmt = Stmt::Expr(
            Expr::Return(syn::ExprReturn { attrs: vec![], return_token: Default::default(), expr: tail_expr.map(Box::new) }),
            Some(Default::default()),
        );
        ss.push(ret_stmt);
        let b = tr.flow(&ss, &[])?;
        format!("f <- {} ;; rs_unflow f", paren(&b))
    } else {
        tr.block(&f.item, f.mut_self)?
    };
    let mut ps = String::new();
    let generic_text = f.params.iter().any(|p| p.1 == Ty::Text) || body.contains("rs_char_len ts");
    if generic_text {
        ps.push_str(" (ts : rs_text_source)");
    }
    if tr.uses_fuel {
        ps.push_str(" (fuel : nat)");
    }
    if f.has_self && !is_struct {
        ps.push_str(&format!(" (self_ : {})", ty_coq(&f.self_ty)));
    }
    for (n, t, _) in &f.params {
        // a field of `self` the method never mentions is not a parameter of the translation
        if is_struct && n.starts_with("self_") && !mentions(&body, &coq_ident(n)) {
            continue;
        }
        let ct = match t {
            Ty::U8 | Ty::Word | Ty::Level => "nat".to_string(),
            Ty::Char => "N".to_string(),
            Ty::Bool => "bool".to_string(),
            Ty::Class => "bclass".to_string(),
            Ty::Text => "list N".to_string(),
            Ty::Source => "rs_data_source".to_string(),
            Ty::Range => "(nat * nat)".to_string(),
            Ty::Str => "list N".to_string(),
            Ty::Slice(e) => match **e {
                Ty::Range => "list (nat * nat)".to_string(),
                Ty::Level | Ty::U8 | Ty::Word => "list nat".to_string(),
                Ty::Class => "list bclass".to_string(),
                Ty::U16 | Ty::Char => "list N".to_string(),
                _ => "_".to_string(),
            },
            _ => "_".to_string(),
        };
        ps.push_str(&format!(" ({} : {})", coq_ident(n), ct));
    }
    Ok(format!("(* {}{} *)\nDefinition {}{} :=\n  {}.\n\n", f.rust, if flow_mode { "  [flow mode]" } else { "" }, f.coq, ps, body))
}
