//! Code part of the translator: a subset of Rust expressions/statements -> Gallina in the panic monad
//! `res` of Base.v (arithmetic overflow, `expect`/`unwrap`, indexing are `Panic`).
//!
//! Value encoding: u8/usize/char -> N; bool -> bool; `Level` (repr(transparent) newtype) -> N;
//! BidiClass -> bclass; Option<T> -> option T; Result<T,E> -> rresult T E; () -> unit;
//! Ordering -> comparison; slices -> list.  A `&mut self` method returns `res (N * R)`: the new value
//! of `self.0` and the result.  Every translated function returns in `res`.
use crate::data::{coq_class, int_consts, parse, Report};
use std::collections::{BTreeMap, BTreeSet};
use std::path::Path;
use syn::{BinOp, Expr, FnArg, ImplItem, Item, Lit, Pat, Stmt, Type, UnOp};

type R<T> = Result<T, String>;

#[derive(Clone, Debug, PartialEq)]
enum Ty {
    Int(u32),
    Bool,
    Level,
    Class,
    Unit,
    Other,
    Unknown,
}

fn ty_of_type(t: &Type) -> Ty {
    match t {
        Type::Reference(r) => ty_of_type(&r.elem),
        Type::Paren(p) => ty_of_type(&p.elem),
        Type::Tuple(t) if t.elems.is_empty() => Ty::Unit,
        Type::Path(p) => {
            let n = p.path.segments.last().map(|s| s.ident.to_string()).unwrap_or_default();
            match n.as_str() {
                "u8" => Ty::Int(8),
                "u16" => Ty::Int(16),
                "u32" | "char" => Ty::Int(32),
                "usize" | "u64" => Ty::Int(64),
                "bool" => Ty::Bool,
                "Level" | "Self" => Ty::Level,
                "BidiClass" => Ty::Class,
                _ => Ty::Other,
            }
        }
        _ => Ty::Other,
    }
}

#[derive(Clone)]
pub struct FnInfo {
    key: (Option<String>, String), // (Self type / trait-impl label, fn name)
    coq: String,
    rust: String,
    has_self: bool,
    mut_self: bool,
    params: Vec<(String, Ty)>,
    ret: Ty,
    item: syn::Block,
}

struct FileCtx {
    stem: String,
    int_consts: BTreeMap<String, u64>,
    other_consts: BTreeMap<String, Expr>, // e.g. LTR_LEVEL = Level(0)
    enums: BTreeMap<String, Vec<String>>, // unit-like enums declared in the file
    fns: Vec<FnInfo>,
    self_is_level: bool,
}

struct Tr<'a> {
    file: &'a FileCtx,
    done: &'a BTreeMap<(Option<String>, String), String>, // translated callees -> coq name
    #[allow(dead_code)]
    f: &'a FnInfo,
    locals: Vec<(String, Ty)>,
    fresh: u32,
    calls: BTreeSet<String>,
}

fn last_ident(p: &syn::Path) -> String {
    p.segments.last().map(|s| s.ident.to_string()).unwrap_or_default()
}

fn strip(e: &Expr) -> &Expr {
    match e {
        Expr::Paren(p) => strip(&p.expr),
        Expr::Group(g) => strip(&g.expr),
        Expr::Reference(r) => strip(&r.expr),
        Expr::Unary(u) if matches!(u.op, UnOp::Deref(_)) => strip(&u.expr),
        _ => e,
    }
}

fn is_self(e: &Expr) -> bool {
    matches!(strip(e), Expr::Path(p) if p.path.is_ident("self"))
}

impl<'a> Tr<'a> {
    fn fresh(&mut self, base: &str) -> String {
        self.fresh += 1;
        format!("{}_{}", base, self.fresh)
    }

    fn lookup_local(&self, n: &str) -> Option<Ty> {
        self.locals.iter().rev().find(|x| x.0 == n).map(|x| x.1.clone())
    }

    // ---------------------------------------------------------------- types (best effort)
    fn infer(&self, e: &Expr) -> Ty {
        match strip(e) {
            Expr::Lit(l) => match &l.lit {
                Lit::Int(i) => match i.suffix() {
                    "u8" => Ty::Int(8),
                    "usize" => Ty::Int(64),
                    "" => Ty::Unknown,
                    _ => Ty::Other,
                },
                Lit::Bool(_) => Ty::Bool,
                Lit::Char(_) => Ty::Int(32),
                _ => Ty::Other,
            },
            Expr::Path(p) => {
                let n = last_ident(&p.path);
                if p.path.is_ident("self") {
                    return Ty::Level;
                }
                if let Some(t) = self.lookup_local(&n) {
                    return t;
                }
                if self.file.int_consts.contains_key(&n) {
                    return Ty::Int(8);
                }
                if coq_class(&n).is_some() {
                    return Ty::Class;
                }
                Ty::Unknown
            }
            Expr::Field(f) => {
                if self.infer(&f.base) == Ty::Level {
                    Ty::Int(8)
                } else {
                    Ty::Unknown
                }
            }
            Expr::Binary(b) => match b.op {
                BinOp::Add(_) | BinOp::Sub(_) | BinOp::Mul(_) | BinOp::Div(_) | BinOp::Rem(_) | BinOp::BitAnd(_)
                | BinOp::BitOr(_) | BinOp::BitXor(_) => {
                    let l = self.infer(&b.left);
                    if l != Ty::Unknown {
                        l
                    } else {
                        self.infer(&b.right)
                    }
                }
                _ => Ty::Bool,
            },
            Expr::Unary(u) => match u.op {
                UnOp::Not(_) => self.infer(&u.expr),
                _ => Ty::Unknown,
            },
            Expr::MethodCall(m) => {
                let name = m.method.to_string();
                if let Some(fi) = self.file.fns.iter().find(|f| f.has_self && f.key.1 == name) {
                    return fi.ret.clone();
                }
                Ty::Unknown
            }
            Expr::Call(c) => {
                if let Expr::Path(p) = strip(&c.func) {
                    if last_ident(&p.path) == "Level" && p.path.segments.len() == 1 {
                        return Ty::Level;
                    }
                    let n = last_ident(&p.path);
                    if let Some(fi) = self.file.fns.iter().find(|f| !f.has_self && f.key.1 == n) {
                        return fi.ret.clone();
                    }
                }
                Ty::Unknown
            }
            _ => Ty::Unknown,
        }
    }

    fn int_bits(&self, a: &Expr, b: &Expr) -> R<u32> {
        match (self.infer(a), self.infer(b)) {
            (Ty::Int(n), _) | (_, Ty::Int(n)) => Ok(n),
            _ => Err("cannot determine the integer width of an arithmetic expression".into()),
        }
    }

    // ---------------------------------------------------------------- expressions
    /// Translate [e] to a *pure* Coq term, pushing monadic bindings (name, computation) to [b].
    fn expr(&mut self, e: &Expr, b: &mut Vec<(String, String)>) -> R<String> {
        match e {
            Expr::Paren(p) => self.expr(&p.expr, b),
            Expr::Group(g) => self.expr(&g.expr, b),
            Expr::Reference(r) => self.expr(&r.expr, b),
            Expr::Lit(l) => match &l.lit {
                Lit::Int(i) => Ok(format!("{}%N", i.base10_parse::<u64>().map_err(|e| e.to_string())?)),
                Lit::Bool(x) => Ok(if x.value { "true".into() } else { "false".into() }),
                Lit::Char(c) => Ok(format!("{}%N", c.value() as u32)),
                _ => Err("unsupported literal".into()),
            },
            Expr::Path(p) => self.path(&p.path),
            Expr::Field(f) => {
                // self.0 / x.0 on the transparent newtype
                if let syn::Member::Unnamed(ix) = &f.member {
                    if self.infer(&f.base) == Ty::Level && ix.index == 0 {
                        return self.expr(&f.base, b);
                    }
                    // tuple projection on a local tuple variable: pair.0 / pair.1 / pair.2 (triples)
                    let base = self.expr(&f.base, b)?;
                    return Ok(match ix.index {
                        0 => format!("(rs_t0 {})", base),
                        1 => format!("(rs_t1 {})", base),
                        2 => format!("(rs_t2 {})", base),
                        _ => return Err("tuple projection beyond .2".into()),
                    });
                }
                Err("named field access".into())
            }
            Expr::Unary(u) => match u.op {
                UnOp::Deref(_) => self.expr(&u.expr, b),
                UnOp::Not(_) => {
                    let t = self.infer(&u.expr);
                    let x = self.expr(&u.expr, b)?;
                    match t {
                        Ty::Bool => Ok(format!("(negb {})", x)),
                        Ty::Int(n) => Ok(format!("(rs_not {} {})", n, x)),
                        Ty::Unknown => {
                            // `!1` next to a u8 operand: the caller supplies the width through `binary`
                            Err("cannot type the operand of `!`".into())
                        }
                        _ => Err("`!` on unsupported type".into()),
                    }
                }
                _ => Err("unsupported unary operator".into()),
            },
            Expr::Binary(bi) => self.binary(bi, b),
            Expr::Call(c) => self.call(c, b),
            Expr::MethodCall(m) => self.method(m, b),
            Expr::Macro(m) => self.mac(&m.mac, b),
            Expr::Tuple(t) if t.elems.is_empty() => Ok("tt".into()),
            Expr::Index(ix) => {
                let v = self.expr(&ix.expr, b)?;
                let i = self.expr(&ix.index, b)?;
                let x = self.fresh("ix");
                b.push((x.clone(), format!("rs_index {} {}", v, i)));
                Ok(x)
            }
            Expr::If(_) | Expr::Match(_) | Expr::Block(_) => {
                // a sub-computation that is not in tail position: it must not assign to self
                let c = self.tail(e, false)?;
                let x = self.fresh("v");
                b.push((x.clone(), c));
                Ok(x)
            }
            Expr::Struct(st) => {
                // the one record the crate's small functions build: BidiMatchedOpeningBracket {opening, is_open}
                // is the pair (opening, is_open) of the model
                if last_ident(&st.path) != "BidiMatchedOpeningBracket" || st.rest.is_some() {
                    return Err("struct literal other than BidiMatchedOpeningBracket".into());
                }
                let mut opening = None;
                let mut is_open = None;
                for f in &st.fields {
                    let n = match &f.member {
                        syn::Member::Named(i) => i.to_string(),
                        _ => return Err("unnamed field".into()),
                    };
                    let v = self.expr(&f.expr, b)?;
                    match n.as_str() {
                        "opening" => opening = Some(v),
                        "is_open" => is_open = Some(v),
                        _ => return Err(format!("unknown field {}", n)),
                    }
                }
                match (opening, is_open) {
                    (Some(o), Some(i)) => Ok(format!("({}, {})", o, i)),
                    _ => Err("BidiMatchedOpeningBracket literal lacks a field".into()),
                }
            }
            Expr::Cast(c) => {
                // widening casts between unsigned integers / char -> u32 are the identity on N
                self.expr(&c.expr, b)
            }
            _ => Err(format!("unsupported expression kind: {}", kind(e))),
        }
    }

    fn path(&mut self, p: &syn::Path) -> R<String> {
        let n = last_ident(p);
        if p.is_ident("self") {
            return Ok("self_".into());
        }
        if p.segments.len() == 1 {
            if self.lookup_local(&n).is_some() {
                return Ok(coq_ident(&n));
            }
        }
        if let Some(v) = self.file.int_consts.get(&n) {
            return Ok(format!("{}%N", v));
        }
        if let Some(e) = self.file.other_consts.get(&n) {
            let e = e.clone();
            let mut b = vec![];
            let t = self.expr(&e, &mut b)?;
            if !b.is_empty() {
                return Err(format!("constant {} is not pure", n));
            }
            return Ok(t);
        }
        match n.as_str() {
            "None" => return Ok("None".into()),
            "Equal" => return Ok("Eq".into()),
            "Less" => return Ok("Lt".into()),
            "Greater" => return Ok("Gt".into()),
            "bidi_class_table" => return Ok("bidi_class_table".into()),
            "bidi_pairs_table" => return Ok("bidi_pairs_table".into()),
            _ => {}
        }
        if let Some(c) = coq_class(&n) {
            return Ok(c.into());
        }
        for (en, vars) in &self.file.enums {
            if vars.contains(&n) {
                return Ok(format!("{}_{}", en, n));
            }
        }
        Err(format!("unresolved path `{}`", n))
    }

    fn binary(&mut self, bi: &syn::ExprBinary, b: &mut Vec<(String, String)>) -> R<String> {
        // `x & !1`: give `!lit` the width of the other operand
        let side = |me: &mut Self, e: &Expr, other: &Expr, b: &mut Vec<(String, String)>| -> R<String> {
            if let Expr::Unary(u) = strip(e) {
                if matches!(u.op, UnOp::Not(_)) && me.infer(&u.expr) == Ty::Unknown {
                    if let Ty::Int(n) = me.infer(other) {
                        let x = me.expr(&u.expr, b)?;
                        return Ok(format!("(rs_not {} {})", n, x));
                    }
                }
            }
            me.expr(e, b)
        };
        match bi.op {
            BinOp::And(_) | BinOp::Or(_) => {
                // short-circuit: the right operand is evaluated only when needed
                let l = self.expr(&bi.left, b)?;
                let mut rb = vec![];
                let r = self.expr(&bi.right, &mut rb)?;
                if rb.is_empty() {
                    return Ok(match bi.op {
                        BinOp::And(_) => format!("({} && {})", l, r),
                        _ => format!("({} || {})", l, r),
                    });
                }
                let rc = wrap(&rb, &format!("Ok {}", paren(&r)));
                let x = self.fresh("sc");
                let c = match bi.op {
                    BinOp::And(_) => format!("if {} then {} else Ok false", l, rc),
                    _ => format!("if {} then Ok true else {}", l, rc),
                };
                b.push((x.clone(), c));
                Ok(x)
            }
            BinOp::Add(_) | BinOp::Sub(_) | BinOp::Mul(_) | BinOp::Div(_) | BinOp::Rem(_) => {
                let bits = self.int_bits(&bi.left, &bi.right)?;
                let l = side(self, &bi.left, &bi.right, b)?;
                let r = side(self, &bi.right, &bi.left, b)?;
                let x = self.fresh("a");
                let c = match bi.op {
                    BinOp::Add(_) => format!("rs_add {} {} {}", bits, l, r),
                    BinOp::Sub(_) => format!("rs_sub {} {}", l, r),
                    BinOp::Mul(_) => format!("rs_mul {} {} {}", bits, l, r),
                    BinOp::Div(_) => format!("rs_div {} {}", l, r),
                    _ => format!("rs_rem {} {}", l, r),
                };
                b.push((x.clone(), c));
                Ok(x)
            }
            BinOp::BitAnd(_) | BinOp::BitOr(_) | BinOp::BitXor(_) => {
                if self.infer(&bi.left) == Ty::Bool {
                    return Err("bitwise operator on bool".into());
                }
                let l = side(self, &bi.left, &bi.right, b)?;
                let r = side(self, &bi.right, &bi.left, b)?;
                Ok(match bi.op {
                    BinOp::BitAnd(_) => format!("(N.land {} {})", l, r),
                    BinOp::BitOr(_) => format!("(N.lor {} {})", l, r),
                    _ => format!("(N.lxor {} {})", l, r),
                })
            }
            BinOp::Eq(_) | BinOp::Ne(_) | BinOp::Lt(_) | BinOp::Le(_) | BinOp::Gt(_) | BinOp::Ge(_) => {
                let t = match self.infer(&bi.left) {
                    Ty::Unknown => self.infer(&bi.right),
                    t => t,
                };
                let l = self.expr(&bi.left, b)?;
                let r = self.expr(&bi.right, b)?;
                match (t, &bi.op) {
                    (Ty::Int(_), BinOp::Eq(_)) | (Ty::Level, BinOp::Eq(_)) => Ok(format!("(N.eqb {} {})", l, r)),
                    (Ty::Int(_), BinOp::Ne(_)) | (Ty::Level, BinOp::Ne(_)) => Ok(format!("(negb (N.eqb {} {}))", l, r)),
                    (Ty::Int(_), BinOp::Lt(_)) | (Ty::Level, BinOp::Lt(_)) => Ok(format!("(N.ltb {} {})", l, r)),
                    (Ty::Int(_), BinOp::Le(_)) | (Ty::Level, BinOp::Le(_)) => Ok(format!("(N.leb {} {})", l, r)),
                    (Ty::Int(_), BinOp::Gt(_)) | (Ty::Level, BinOp::Gt(_)) => Ok(format!("(N.ltb {} {})", r, l)),
                    (Ty::Int(_), BinOp::Ge(_)) | (Ty::Level, BinOp::Ge(_)) => Ok(format!("(N.leb {} {})", r, l)),
                    (Ty::Class, BinOp::Eq(_)) => Ok(format!("(ceq {} {})", l, r)),
                    (Ty::Class, BinOp::Ne(_)) => Ok(format!("(negb (ceq {} {}))", l, r)),
                    (Ty::Bool, BinOp::Eq(_)) => Ok(format!("(Bool.eqb {} {})", l, r)),
                    _ => Err("comparison on a type the translator cannot determine".into()),
                }
            }
            _ => Err("unsupported binary operator".into()),
        }
    }

    fn args(&mut self, args: &syn::punctuated::Punctuated<Expr, syn::token::Comma>, b: &mut Vec<(String, String)>) -> R<Vec<String>> {
        args.iter().map(|a| self.expr(a, b)).collect()
    }

    fn call(&mut self, c: &syn::ExprCall, b: &mut Vec<(String, String)>) -> R<String> {
        let p = match strip(&c.func) {
            Expr::Path(p) => &p.path,
            _ => return Err("call through a non-path".into()),
        };
        let n = last_ident(p);
        let segs: Vec<String> = p.segments.iter().map(|s| s.ident.to_string()).collect();
        if segs.len() == 1 {
            match n.as_str() {
                "Some" | "Ok" | "Err" if c.args.len() == 1 => {
                    let a = self.expr(&c.args[0], b)?;
                    let ctor = match n.as_str() {
                        "Some" => "Some",
                        "Ok" => "ROk",
                        _ => "RErr",
                    };
                    return Ok(format!("({} {})", ctor, a));
                }
                "Level" if c.args.len() == 1 => return self.expr(&c.args[0], b), // transparent newtype
                _ => {}
            }
        }
        // struct-literal-like constructor of the bracket record is handled in `expr_struct`; here: functions
        let key = if segs.len() >= 2 {
            let ty = &segs[segs.len() - 2];
            let ty = if ty == "Self" { "Level".to_string() } else { ty.clone() };
            (Some(ty), n.clone())
        } else {
            (None, n.clone())
        };
        let coq = self.done.get(&key).cloned().ok_or(format!("call to `{}` which is not translated", segs.join("::")))?;
        self.calls.insert(coq.clone());
        let a = self.args(&c.args, b)?;
        let x = self.fresh("r");
        b.push((x.clone(), format!("{} {}", coq, a.join(" "))));
        Ok(x)
    }

    fn method(&mut self, m: &syn::ExprMethodCall, b: &mut Vec<(String, String)>) -> R<String> {
        let name = m.method.to_string();
        match name.as_str() {
            "checked_add" | "checked_sub" if m.args.len() == 1 => {
                let bits = self.int_bits(&m.receiver, &m.args[0])?;
                let l = self.expr(&m.receiver, b)?;
                let r = self.expr(&m.args[0], b)?;
                return Ok(if name == "checked_add" {
                    format!("(rs_checked_add {} {} {})", bits, l, r)
                } else {
                    format!("(rs_checked_sub {} {})", l, r)
                });
            }
            "expect" | "unwrap" => {
                let l = self.expr(&m.receiver, b)?;
                let x = self.fresh("u");
                b.push((x.clone(), format!("rs_expect {}", l)));
                return Ok(x);
            }
            "unwrap_or" if m.args.len() == 1 => {
                let l = self.expr(&m.receiver, b)?;
                let d = self.expr(&m.args[0], b)?;
                return Ok(format!("(opt_or {} {})", l, d));
            }
            "iter" | "into_iter" | "clone" | "copied" | "cloned" if m.args.is_empty() => return self.expr(&m.receiver, b),
            "any" | "all" if m.args.len() == 1 => {
                let l = self.expr(&m.receiver, b)?;
                if let Expr::Closure(cl) = strip(&m.args[0]) {
                    if cl.inputs.len() != 1 {
                        return Err("closure arity".into());
                    }
                    let v = pat_var(&cl.inputs[0])?;
                    self.locals.push((v.clone(), Ty::Level)); // element type: only used on level slices
                    let body = self.tail(&cl.body, false);
                    self.locals.pop();
                    let x = self.fresh("q");
                    b.push((x.clone(), format!("rs_{} (fun {} => {}) {}", name, coq_ident(&v), body?, l)));
                    return Ok(x);
                }
                return Err("`any`/`all` without a closure literal".into());
            }
            "binary_search_by" if m.args.len() == 1 => {
                let l = self.expr(&m.receiver, b)?;
                if let Expr::Closure(cl) = strip(&m.args[0]) {
                    if cl.inputs.len() != 1 {
                        return Err("closure arity".into());
                    }
                    let (pat, vars) = self.pattern(&cl.inputs[0])?;
                    let n0 = self.locals.len();
                    for v in vars {
                        self.locals.push((v, Ty::Int(32)));
                    }
                    let body = self.tail(&cl.body, false);
                    self.locals.truncate(n0);
                    let x = self.fresh("bs");
                    b.push((x.clone(), format!("rs_binary_search_by (fun '{} => {}) {}", pat, body?, l)));
                    return Ok(x);
                }
                return Err("binary_search_by without a closure literal".into());
            }
            _ => {}
        }
        // a method of the same file
        let cands: Vec<&FnInfo> = self.file.fns.iter().filter(|f| f.has_self && f.key.1 == name).collect();
        if cands.len() == 1 {
            let fi = cands[0];
            if fi.mut_self {
                return Err("call to a `&mut self` method in expression position".into());
            }
            let coq = self.done.get(&fi.key).cloned().ok_or(format!("call to `{}` which is not translated", fi.rust))?;
            self.calls.insert(coq.clone());
            let recv = self.expr(&m.receiver, b)?;
            let a = self.args(&m.args, b)?;
            let x = self.fresh("r");
            b.push((x.clone(), format!("{} {} {}", coq, recv, a.join(" ")).trim_end().to_string()));
            return Ok(x);
        }
        Err(format!("unsupported method `{}`", name))
    }

    fn mac(&mut self, m: &syn::Macro, b: &mut Vec<(String, String)>) -> R<String> {
        let n = last_ident(&m.path);
        if n == "matches" {
            // matches!(expr, pat)
            let parsed: MatchesArgs = syn::parse2(m.tokens.clone()).map_err(|e| format!("matches!: {}", e))?;
            let s = self.expr(&parsed.scrutinee, b)?;
            let (p, vars) = self.pattern(&parsed.pat)?;
            if !vars.is_empty() {
                return Err("matches! with binders".into());
            }
            return Ok(format!("(match {} with {} => true | _ => false end)", s, p));
        }
        Err(format!("unsupported macro `{}!`", n))
    }

    /// Coq pattern + bound variables
    fn pattern(&mut self, p: &Pat) -> R<(String, Vec<String>)> {
        match p {
            Pat::Wild(_) => Ok(("_".into(), vec![])),
            Pat::Ident(i) => {
                let n = i.ident.to_string();
                // an identifier pattern may be a unit constructor in scope (None, class names, Ordering)
                if n == "None" {
                    return Ok(("None".into(), vec![]));
                }
                if let Some(c) = coq_class(&n) {
                    if self.lookup_local(&n).is_none() {
                        return Ok((c.into(), vec![]));
                    }
                }
                match n.as_str() {
                    "Equal" => return Ok(("Eq".into(), vec![])),
                    "Less" => return Ok(("Lt".into(), vec![])),
                    "Greater" => return Ok(("Gt".into(), vec![])),
                    _ => {}
                }
                Ok((coq_ident(&n), vec![n]))
            }
            Pat::Reference(r) => self.pattern(&r.pat),
            Pat::Paren(r) => self.pattern(&r.pat),
            Pat::Path(pp) => {
                let n = last_ident(&pp.path);
                let t = self.path(&pp.path)?;
                let _ = n;
                Ok((t, vec![]))
            }
            Pat::TupleStruct(ts) => {
                let n = last_ident(&ts.path);
                let ctor = match n.as_str() {
                    "Some" => "Some",
                    "Ok" => "ROk",
                    "Err" => "RErr",
                    _ => return Err(format!("unsupported constructor pattern `{}`", n)),
                };
                if ts.elems.len() != 1 {
                    return Err("constructor pattern arity".into());
                }
                let (p, v) = self.pattern(&ts.elems[0])?;
                Ok((format!("({} {})", ctor, p), v))
            }
            Pat::Tuple(t) => {
                let mut ps = vec![];
                let mut vs = vec![];
                for e in &t.elems {
                    let (p, v) = self.pattern(e)?;
                    ps.push(p);
                    vs.extend(v);
                }
                Ok((format!("({})", ps.join(", ")), vs))
            }
            Pat::Or(o) => {
                let mut ps = vec![];
                for c in &o.cases {
                    let (p, v) = self.pattern(c)?;
                    if !v.is_empty() {
                        return Err("or-pattern with binders".into());
                    }
                    ps.push(p);
                }
                Ok((ps.join(" | "), vec![]))
            }
            Pat::Lit(l) => match &l.lit {
                Lit::Int(i) => Ok((format!("{}%N", i.base10_parse::<u64>().map_err(|e| e.to_string())?), vec![])),
                Lit::Bool(x) => Ok(((if x.value { "true" } else { "false" }).into(), vec![])),
                _ => Err("unsupported literal pattern".into()),
            },
            _ => Err("unsupported pattern".into()),
        }
    }

    // ---------------------------------------------------------------- computations
    /// [e] in tail position -> a Coq term of type `res T` (`res (N * T)` when [st]: the function is a
    /// `&mut self` method and the current value of self.0 is threaded as `self_`).
    fn tail(&mut self, e: &Expr, st: bool) -> R<String> {
        match e {
            Expr::Paren(p) => self.tail(&p.expr, st),
            Expr::Group(g) => self.tail(&g.expr, st),
            Expr::Block(bl) => self.block(&bl.block, st),
            Expr::If(i) => {
                if let Expr::Let(_) = strip(&i.cond) {
                    return Err("if let".into());
                }
                let mut b = vec![];
                let c = self.expr(&i.cond, &mut b)?;
                let t = self.block(&i.then_branch, st)?;
                let el = match &i.else_branch {
                    Some((_, e)) => self.tail(e, st)?,
                    None => return Err("`if` without `else` in value position".into()),
                };
                Ok(wrap(&b, &format!("if {} then {} else {}", c, t, el)))
            }
            Expr::Match(m) => {
                let mut b = vec![];
                let s = self.expr(&m.expr, &mut b)?;
                let mut arms = vec![];
                for a in &m.arms {
                    if a.guard.is_some() {
                        return Err("match guard".into());
                    }
                    let (p, vars) = self.pattern(&a.pat)?;
                    let n0 = self.locals.len();
                    for v in vars {
                        self.locals.push((v, Ty::Int(self.scrutinee_bits(&m.expr))));
                    }
                    let body = self.tail(&a.body, st);
                    self.locals.truncate(n0);
                    arms.push(format!("| {} => {}", p, body?));
                }
                Ok(wrap(&b, &format!("match {} with {} end", s, arms.join(" "))))
            }
            Expr::Return(r) => match &r.expr {
                Some(e) => self.tail(e, st),
                None => Ok(self.ret("tt", st)),
            },
            _ => {
                let mut b = vec![];
                let t = self.expr(e, &mut b)?;
                let r = self.ret(&t, st);
                Ok(wrap(&b, &r))
            }
        }
    }

    fn scrutinee_bits(&self, e: &Expr) -> u32 {
        // the payload of `x.checked_add(y)` has the width of x; anything else: 8 (only level.rs uses this)
        if let Expr::MethodCall(m) = strip(e) {
            if let Ty::Int(n) = self.infer(&m.receiver) {
                return n;
            }
        }
        8
    }

    fn ret(&self, t: &str, st: bool) -> String {
        if st {
            format!("Ok (self_, {})", t)
        } else {
            format!("Ok {}", paren(t))
        }
    }

    fn block(&mut self, bl: &syn::Block, st: bool) -> R<String> {
        let n0 = self.locals.len();
        let r = self.stmts(&bl.stmts, st);
        self.locals.truncate(n0);
        r
    }

    fn stmts(&mut self, ss: &[Stmt], st: bool) -> R<String> {
        if ss.is_empty() {
            return Ok(self.ret("tt", st));
        }
        let (s, rest) = (&ss[0], &ss[1..]);
        match s {
            Stmt::Local(l) => {
                let init = l.init.as_ref().ok_or("let without initialiser")?;
                if init.diverge.is_some() {
                    return Err("let-else".into());
                }
                let mut b = vec![];
                let t = self.expr(&init.expr, &mut b)?;
                let ty = self.infer(&init.expr);
                let (p, vars) = self.pattern(strip_pat_type(&l.pat))?;
                for v in vars {
                    self.locals.push((v, if ty == Ty::Unknown { Ty::Int(32) } else { ty.clone() }));
                }
                let k = self.stmts(rest, st)?;
                Ok(wrap(&b, &format!("let '{} := {} in {}", p, t, k)))
            }
            Stmt::Expr(e, semi) => {
                if rest.is_empty() && semi.is_none() {
                    return self.tail(e, st);
                }
                if rest.is_empty() {
                    if let Expr::Return(_) = e {
                        return self.tail(e, st);
                    }
                }
                match e {
                    Expr::Assign(a) => {
                        // self.0 = e;
                        let ok = matches!(strip(&a.left), Expr::Field(f) if is_self(&f.base));
                        if !ok || !st {
                            return Err("assignment to something other than self.0 of a &mut self method".into());
                        }
                        let mut b = vec![];
                        let t = self.expr(&a.right, &mut b)?;
                        let k = self.stmts(rest, st)?;
                        Ok(wrap(&b, &format!("let self_ := {} in {}", t, k)))
                    }
                    Expr::ForLoop(fl) => self.for_loop(fl, rest, st),
                    Expr::Macro(m) if last_ident(&m.mac.path).starts_with("debug_assert") => self.stmts(rest, st),
                    _ => Err(format!("unsupported statement: {}", kind(e))),
                }
            }
            Stmt::Macro(m) if last_ident(&m.mac.path).starts_with("debug_assert") => self.stmts(rest, st),
            _ => Err("unsupported statement".into()),
        }
    }

    /// `for pat in e { lets; if c { lets; return r; } }  rest`  ->  rs_for_return
    fn for_loop(&mut self, fl: &syn::ExprForLoop, rest: &[Stmt], st: bool) -> R<String> {
        if st {
            return Err("loop in a &mut self method".into());
        }
        let mut b = vec![];
        let coll = self.expr(&fl.expr, &mut b)?;
        let (p, vars) = self.pattern(&fl.pat)?;
        let n0 = self.locals.len();
        for v in vars {
            self.locals.push((v, Ty::Unknown));
        }
        let body = self.loop_body(&fl.body.stmts);
        self.locals.truncate(n0);
        let body = body?;
        let k = self.stmts(rest, st)?;
        Ok(wrap(&b, &format!("rs_for_return (fun '{} => {}) {} ({})", p, body, coll, k)))
    }

    /// body of a for loop as a computation of `option R`: Some r = `return r`, None = next iteration
    fn loop_body(&mut self, ss: &[Stmt]) -> R<String> {
        if ss.is_empty() {
            return Ok("Ok None".into());
        }
        let (s, rest) = (&ss[0], &ss[1..]);
        match s {
            Stmt::Local(l) => {
                let init = l.init.as_ref().ok_or("let without initialiser")?;
                let mut b = vec![];
                let t = self.expr(&init.expr, &mut b)?;
                let (p, vars) = self.pattern(strip_pat_type(&l.pat))?;
                for v in vars {
                    self.locals.push((v, Ty::Int(32)));
                }
                let k = self.loop_body(rest)?;
                Ok(wrap(&b, &format!("let '{} := {} in {}", p, t, k)))
            }
            Stmt::Expr(Expr::Return(r), _) => {
                let e = r.expr.as_ref().ok_or("bare return in loop")?;
                let mut b = vec![];
                let t = self.expr(e, &mut b)?;
                Ok(wrap(&b, &format!("Ok (Some {})", paren(&t))))
            }
            Stmt::Expr(Expr::If(i), _) if i.else_branch.is_none() => {
                let mut b = vec![];
                let c = self.expr(&i.cond, &mut b)?;
                let n0 = self.locals.len();
                let t = self.loop_body(&i.then_branch.stmts);
                self.locals.truncate(n0);
                let k = self.loop_body(rest)?;
                // then-branch either returns (Some) or falls through to the rest of the body
                Ok(wrap(&b, &format!("if {} then (o <- {} ;; match o with Some r => Ok (Some r) | None => {} end) else {}", c, paren(&t?), k, k)))
            }
            _ => Err("unsupported statement in a for loop".into()),
        }
    }
}

struct MatchesArgs {
    scrutinee: Expr,
    pat: Pat,
}
impl syn::parse::Parse for MatchesArgs {
    fn parse(input: syn::parse::ParseStream) -> syn::Result<Self> {
        let scrutinee: Expr = input.parse()?;
        input.parse::<syn::Token![,]>()?;
        let pat = Pat::parse_multi_with_leading_vert(input)?;
        let _ = input.parse::<Option<syn::Token![,]>>();
        Ok(MatchesArgs { scrutinee, pat })
    }
}

fn strip_pat_type(p: &Pat) -> &Pat {
    match p {
        Pat::Type(t) => &t.pat,
        _ => p,
    }
}

fn pat_var(p: &Pat) -> R<String> {
    match p {
        Pat::Ident(i) => Ok(i.ident.to_string()),
        Pat::Reference(r) => pat_var(&r.pat),
        Pat::Type(t) => pat_var(&t.pat),
        _ => Err("closure parameter is not a variable".into()),
    }
}

fn balanced_outer(t: &str) -> bool {
    // does the opening parenthesis at position 0 close at the very end?
    if !(t.starts_with('(') && t.ends_with(')')) {
        return false;
    }
    let mut d = 0i32;
    for (i, c) in t.char_indices() {
        match c {
            '(' => d += 1,
            ')' => {
                d -= 1;
                if d == 0 && i != t.len() - 1 {
                    return false;
                }
            }
            _ => {}
        }
    }
    true
}

fn paren(t: &str) -> String {
    if t.contains(' ') && !balanced_outer(t) {
        format!("({})", t)
    } else {
        t.to_string()
    }
}

fn wrap(b: &[(String, String)], k: &str) -> String {
    let mut s = String::new();
    for (x, c) in b {
        s.push_str(&format!("{} <- {} ;; ", x, paren(c)));
    }
    if b.is_empty() {
        k.to_string()
    } else {
        format!("({}{})", s, k)
    }
}

fn coq_ident(n: &str) -> String {
    // every Rust local/parameter gets a prefix, so that it can never be read as a Coq constructor
    // (`pair`, `S`, `L`, ...) or keyword
    format!("v_{}", n)
}

fn kind(e: &Expr) -> &'static str {
    match e {
        Expr::Array(_) => "array",
        Expr::Assign(_) => "assignment",
        Expr::Closure(_) => "closure",
        Expr::ForLoop(_) => "for loop",
        Expr::While(_) => "while loop",
        Expr::Loop(_) => "loop",
        Expr::Struct(_) => "struct literal",
        Expr::Unsafe(_) => "unsafe block",
        Expr::Range(_) => "range",
        Expr::Let(_) => "let condition",
        Expr::Try(_) => "? operator",
        _ => "other",
    }
}

// -------------------------------------------------------------------------------------------------
fn collect(repo: &Path, rel: &str) -> R<FileCtx> {
    let f = parse(repo, rel)?;
    let stem = Path::new(rel).file_stem().unwrap().to_string_lossy().to_string();
    let stem = if stem == "mod" { "char_data".to_string() } else { stem };
    let mut ctx = FileCtx {
        stem: stem.clone(),
        int_consts: int_consts(&f),
        other_consts: BTreeMap::new(),
        enums: BTreeMap::new(),
        fns: vec![],
        self_is_level: rel.ends_with("level.rs"),
    };
    for it in &f.items {
        match it {
            Item::Const(c) => {
                if !ctx.int_consts.contains_key(&c.ident.to_string()) {
                    ctx.other_consts.insert(c.ident.to_string(), (*c.expr).clone());
                }
            }
            Item::Enum(e) if e.variants.iter().all(|v| v.fields.is_empty()) && e.ident != "BidiClass" => {
                ctx.enums.insert(e.ident.to_string(), e.variants.iter().map(|v| v.ident.to_string()).collect());
            }
            Item::Fn(fun) => {
                let name = fun.sig.ident.to_string();
                ctx.fns.push(fn_info(&stem, None, &name, &fun.sig, &fun.block));
            }
            Item::Impl(im) => {
                let self_ty = match &*im.self_ty {
                    Type::Path(p) => last_ident(&p.path),
                    _ => continue,
                };
                let label = match &im.trait_ {
                    None => self_ty.clone(),
                    Some((_, p, _)) => {
                        let seg = p.segments.last().unwrap();
                        let mut l = seg.ident.to_string();
                        if let syn::PathArguments::AngleBracketed(a) = &seg.arguments {
                            for g in &a.args {
                                if let syn::GenericArgument::Type(Type::Path(tp)) = g {
                                    l.push('_');
                                    l.push_str(&last_ident(&tp.path));
                                }
                            }
                        }
                        format!("{}_for_{}", l, self_ty)
                    }
                };
                for ii in &im.items {
                    if let ImplItem::Fn(m) = ii {
                        let name = m.sig.ident.to_string();
                        ctx.fns.push(fn_info(&stem, Some(&label), &name, &m.sig, &m.block));
                    }
                }
            }
            _ => {}
        }
    }
    Ok(ctx)
}

fn fn_info(stem: &str, label: Option<&str>, name: &str, sig: &syn::Signature, block: &syn::Block) -> FnInfo {
    let mut has_self = false;
    let mut mut_self = false;
    let mut params = vec![];
    for a in &sig.inputs {
        match a {
            FnArg::Receiver(r) => {
                has_self = true;
                mut_self = r.mutability.is_some() && r.reference.is_some();
            }
            FnArg::Typed(t) => {
                let n = match &*t.pat {
                    Pat::Ident(i) => i.ident.to_string(),
                    _ => "_".to_string(),
                };
                params.push((n, ty_of_type(&t.ty)));
            }
        }
    }
    let ret = match &sig.output {
        syn::ReturnType::Default => Ty::Unit,
        syn::ReturnType::Type(_, t) => ty_of_type(t),
    };
    let (coq, rust) = match label {
        Some(l) => (format!("src_{}_{}_{}", stem, l, name), format!("{}::{}::{}", stem, l, name)),
        None => (format!("src_{}_{}", stem, name), format!("{}::{}", stem, name)),
    };
    FnInfo { key: (label.map(|s| s.to_string()), name.to_string()), coq, rust, has_self, mut_self, params, ret, item: block.clone() }
}

pub const FILES: [&str; 4] = ["src/level.rs", "src/char_data/mod.rs", "src/prepare.rs", "src/implicit.rs"];

/// the functions the framework wants translated (others in these files are ignored silently):
/// file stem, Self/trait label ("" = free function), function
pub const FUNCS: &[(&str, &str, &str)] = &[
    ("level", "Level", "ltr"),
    ("level", "Level", "rtl"),
    ("level", "Level", "max_implicit_depth"),
    ("level", "Level", "max_explicit_depth"),
    ("level", "Level", "new"),
    ("level", "Level", "new_explicit"),
    ("level", "Level", "number"),
    ("level", "Level", "is_ltr"),
    ("level", "Level", "is_rtl"),
    ("level", "Level", "raise"),
    ("level", "Level", "raise_explicit"),
    ("level", "Level", "lower"),
    ("level", "Level", "new_explicit_next_ltr"),
    ("level", "Level", "new_explicit_next_rtl"),
    ("level", "Level", "new_lowest_ge_rtl"),
    ("level", "Level", "bidi_class"),
    ("level", "", "has_rtl"),
    ("level", "From_Level_for_u8", "from"),
    ("level", "From_u8_for_Level", "from"),
    ("char_data", "", "is_rtl"),
    ("char_data", "", "bidi_matched_opening_bracket"),
    ("char_data", "", "bsearch_range_value_table"),
    ("char_data", "", "bidi_class"),
    ("prepare", "", "removed_by_x9"),
    ("prepare", "", "not_removed_by_x9"),
    ("implicit", "", "is_NI"),
];

pub fn translate_all(repo: &Path, report: &mut Report) -> String {
    let mut out = String::new();
    out.push_str("(* GENERATED by rs2v from the working tree's src/{level,char_data/mod,prepare,implicit}.rs — do not edit.\n   One Definition per translated Rust function, in the panic monad of Base.v (see RsPrelude.v). *)\n");
    out.push_str("From BidiVerif Require Import Base ConstsGen TablesGen RsPrelude.\nLocal Open Scope N_scope.\nLocal Open Scope bool_scope.\n\n");
    for rel in FILES {
        let ctx = match collect(repo, rel) {
            Ok(c) => c,
            Err(e) => {
                for (stem, l, n) in FUNCS {
                    if rel.contains(stem) || (*stem == "char_data" && rel.contains("char_data")) {
                        report.skipped.push((format!("{}::{}::{}", stem, l, n), format!("file does not parse: {}", e)));
                    }
                }
                continue;
            }
        };
        for (en, vars) in &ctx.enums {
            let used = FUNCS.iter().any(|(s, _, _)| *s == ctx.stem) && ctx.self_is_level;
            if used {
                out.push_str(&format!(
                    "Inductive {} : Set := {}.\n",
                    en,
                    vars.iter().map(|v| format!("{}_{}", en, v)).collect::<Vec<_>>().join(" | ")
                ));
            }
        }
        let mut done: BTreeMap<(Option<String>, String), String> = BTreeMap::new();
        let wanted: Vec<&FnInfo> = ctx
            .fns
            .iter()
            .filter(|f| {
                FUNCS.iter().any(|(s, l, n)| *s == ctx.stem && f.key.1 == *n && f.key.0.as_deref().unwrap_or("") == *l)
            })
            .collect();
        for (s, l, n) in FUNCS.iter().filter(|(s, _, _)| *s == ctx.stem) {
            if !wanted.iter().any(|f| f.key.1 == *n && f.key.0.as_deref().unwrap_or("") == *l) {
                report.skipped.push((format!("{}::{}::{}", s, l, n), "function not found in the source".into()));
            }
        }
        // several passes so that callees defined later in the file are picked up
        let mut pending: Vec<&FnInfo> = wanted.clone();
        let mut last_err: BTreeMap<String, String> = BTreeMap::new();
        loop {
            let mut progress = false;
            let mut next = vec![];
            for f in pending {
                let mut tr = Tr { file: &ctx, done: &done, f, locals: f.params.clone(), fresh: 0, calls: BTreeSet::new() };
                let body = tr.block(&f.item, f.mut_self);
                match body {
                    Ok(b) => {
                        let mut ps = String::new();
                        if f.has_self {
                            ps.push_str(" (self_ : N)");
                        }
                        for (n, t) in &f.params {
                            let ct = match t {
                                Ty::Int(_) | Ty::Level => "N",
                                Ty::Bool => "bool",
                                Ty::Class => "bclass",
                                _ => "_",
                            };
                            ps.push_str(&format!(" ({} : {})", coq_ident(n), ct));
                        }
                        out.push_str(&format!("(* {} *)\nDefinition {}{} :=\n  {}.\n\n", f.rust, f.coq, ps, b));
                        done.insert(f.key.clone(), f.coq.clone());
                        report.translated.push((f.rust.clone(), f.coq.clone()));
                        progress = true;
                    }
                    Err(e) => {
                        last_err.insert(f.rust.clone(), e);
                        next.push(f);
                    }
                }
            }
            pending = next;
            if !progress || pending.is_empty() {
                break;
            }
        }
        for f in pending {
            report.skipped.push((f.rust.clone(), last_err.get(&f.rust).cloned().unwrap_or_default()));
        }
        let _ = &ctx.self_is_level;
    }
    out
}
