#!/bin/sh
# tools/try_mutant2.sh <id> <x> [root]: confirm a seeded change delivered as <root>/<id>.out/{patch_x.diff,demo_x.rs}
# in the scratch worktree <root>/<id>, then run every quick check against it.  The change is applied to /repo
# only for the duration of the checks (restored by `git checkout -- .` even when interrupted).
set -u
id=$1; x=$2; root=${3:-/tmp/mut2}
wt=$root/$id; out=$root/$id.out; res=$out/result_$x.txt
[ -f "$out/patch_$x.diff" ] || { echo "no patch_$x for $id"; exit 2; }
export CARGO_NET_OFFLINE=true
cd "$wt" || exit 2
git checkout -q -- . 2>/dev/null; rm -f tests/demo.rs
{
cp "$out/demo_$x.rs" tests/demo.rs
base_demo=$(cargo test --offline --test demo 2>&1 | grep -E "^test result" | head -1)
rm -f tests/demo.rs
git apply "$out/patch_$x.diff" || { echo "CONFIRM $id$x: patch does not apply in worktree"; exit 2; }
b1=$(cargo build --offline 2>&1 | grep -cE "^error")
b2=$(cargo build --offline --features smallvec 2>&1 | grep -cE "^error")
b3=$(cargo build --offline --features serde 2>&1 | grep -cE "^error")
b4=$(cargo build --offline --no-default-features --features hardcoded-data 2>&1 | grep -cE "^error")
mut_suite=$(cargo test --offline 2>&1 | grep -E "^test result" | tr '\n' ' ')
cp "$out/demo_$x.rs" tests/demo.rs
mut_demo=$(cargo test --offline --test demo 2>&1 | grep -E "^test result" | head -1)
rm -f tests/demo.rs; git checkout -q -- .
echo "CONFIRM $id$x: demo on unchanged: [$base_demo]"
echo "CONFIRM $id$x: build errors (default/smallvec/serde/no-default): $b1 $b2 $b3 $b4"
echo "CONFIRM $id$x: suite with change:  [$mut_suite]"
echo "CONFIRM $id$x: demo with change:   [$mut_demo]"
cd /verif
trap 'git -C /repo checkout -- .' EXIT INT TERM
git -C /repo apply "$out/patch_$x.diff" || { echo "patch does not apply in /repo"; exit 2; }
caught=""
for p in C01 C02 C03 C04 C05 C06 C07 C08 C09 C10 C11 C12 C13 C14 C15 C16 C17 C18 C19 C20; do
  if [ "$p" = C20 ] && [ "$id" != C20 ] && [ -z "${MUT_ALL:-}" ]; then continue; fi   # five feature builds: only for changes aimed at C20
  r=$(VERIF_NOSHRINK=1 ./check $p 2>/dev/null | grep -E "^VIOLATION" | head -1)
  if [ -n "$r" ]; then caught="$caught $p"; echo "  $r"; fi
done
git -C /repo checkout -- .
trap - EXIT INT TERM
echo "RESULT $id$x: caught by:$caught"
} > "$res" 2>&1
tail -1 "$res"
