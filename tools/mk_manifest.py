#!/usr/bin/env python3
"""Writes MANIFEST.json from the table below and coq/Props/index.json (which theorems are closed)."""
import json, os
ROOT = os.path.dirname(os.path.dirname(os.path.abspath(__file__)))
idx_path = os.path.join(ROOT, "coq", "Props", "index.json")
idx = json.load(open(idx_path)) if os.path.exists(idx_path) else {}

TB = ("Trusted: Coq 8.16.1 kernel and vm_compute (no native_compute); no axioms declared (Print Assumptions of every property theorem is "
      "checked on each run); tools/gen_tables.py (translator for tables/constants); extraction with ExtrOcamlBasic only and ocaml/driver.ml "
      "(parsing/printing glue); the Rust harness; Spec.v as a transcription of UAX #9 rev. 50; rustc/core behaviour "
      "(char_indices, len_utf8/16, decode_utf16, binary_search_by, stable sort) as modelled in ModelText.v.")

# property -> (design section, technique, what the check gives when no full theorem is closed yet)
P = {
 "C01": ("5/C01", "Coq model + UAX#9 spec in Gallina; partial proofs; judge C01_judge (spec levels) on real outputs; model/impl correspondence"),
 "C02": ("5/C02", "Coq theorem on compute_initial_info model vs Spec P1-P3/X5c; correspondence on InitialInfo/BidiInfo fields"),
 "C03": ("5/C03", "Coq theorem: reorder_levels model = Spec.l1 at unit granularity; correspondence on reordered_levels(_per_char)"),
 "C04": ("5/C04", "Coq theorem: reorder_visual model = Spec.l2, permutation, identity without odd levels; correspondence on level vectors"),
 "C05": ("5/C05", "Coq theorems on visual_runs model (partition, maximal, L2 order); correspondence on visual_runs + deprecated"),
 "C06": ("5/C06", "Coq theorems on reorder_line model; judge C06_judge on real outputs; correspondence"),
 "C07": ("5/C07", "panic-as-value Coq model: totality theorems per function; judge = no panic on any API call, all families"),
 "C08": ("5/C08", "Coq invariants (lengths, uniformity, bounds); judge C08_judge on stored and line levels"),
 "C09": ("5/C09", "one generic Coq model for both encodings + C18 theorem; paired judge C09_judge (UTF-16 case vs UTF-8 twin)"),
 "C10": ("5/C10", "Coq frame/independence lemmas; judge C10_judge (paragraph substrings, single-paragraph API)"),
 "C11": ("5/C11", "Coq invariants (levels <= 125/126), regenerated constants; judge on inputs that reach the limits"),
 "C12": ("5/C12", "parametricity of the Coq model in the data source; adversarial data sources through the judges"),
 "C13": ("5/C13", "Coq lemmas on the explicit stage; relational judge C13_judge on pairs of texts"),
 "C14": ("5/C14", "Coq theorems on the regenerated table (sorted, disjoint, bsearch = linear lookup, = reference); exhaustive tie over all scalars"),
 "C15": ("5/C15", "Coq theorems on the regenerated bracket table; exhaustive tie over all scalars"),
 "C16": ("5/C16", "Coq theorem: get_base_direction model = Spec P2/P3; correspondence on 4 entry points x 2 encodings"),
 "C17": ("5/C17", "Coq theorems on para_direction/level_at/has_rtl models; judge C17_judge"),
 "C18": ("5/C18", "Coq theorems: char_at/iterators = lossy decoding, all next/next_back interleavings; correspondence incl. exhaustive small programs"),
 "C19": ("5/C19", "Coq theorems by lia over all nat arguments; exhaustive tie over the whole u8 domain in debug and release"),
 "C20": ("5/C20", "correspondence across five feature builds (byte-identical outputs) + serde round trip; no theorem can quantify over cargo features"),
}

checks = []
for pid, (ref, tech) in sorted(P.items()):
    e = idx.get(pid, {})
    full = bool(e.get("full"))
    cat = "proof" if full else "other"
    thms = ", ".join(e.get("theorems", []))
    if full:
        text = ("Machine-checked Coq theorem(s) %s about the executable model of the code, for all inputs; the model is tied to /repo on every run "
                "by the regenerated data model and by the correspondence check (same seeded cases through the real crate and the extracted model, "
                "field by field). %s" % (thms, e.get("statement", "")))
    elif pid == "C20":
        text = ("Correspondence only: the five feature builds must print byte-identical results on the shared case file, and the default build is "
                "compared with the extracted Coq model; Level round-trips through serde_json for all 127 levels. The Coq model has no features, so no "
                "theorem quantifies over them (DESIGN 5/C20).")
    else:
        text = ("Partial machine-checked proof%s; the remaining part of the statement is decided on the real crate's outputs by the extracted "
                "Gallina judge %s_judge (the same predicate the theorems are stated with) plus the model/implementation correspondence over all "
                "generator families. %s" % ((" (" + thms + ")") if thms else " (model and specification are in Coq; no property theorem closed yet)", pid, e.get("partial_note", "")))
    checks.append({
        "property_id": pid,
        "quick_cmd": "./check %s" % pid,
        "thorough_cmd": "./check %s --tier thorough" % pid,
        "evidence_file": "/verif/evidence/%s.json" % pid,
        "replay_cmd_template": "./check replay {path}",
        "engine": "coq-model+correspondence",
        "level_claimed": {"category": cat, "text": text, "design_ref": "DESIGN.md section " + ref},
        "level_note": TB,
        "technique": tech,
    })

m = {
 "version": 1,
 "setup_cmd": "./check setup",
 "hooks": {"guard": "unicode_bidi_verif", "enable": "RUSTFLAGS='--cfg unicode_bidi_verif' (set by tools/check.py when building the harness)",
           "baseline_off_cmd": "cd /repo && cargo test --workspace --no-fail-fast --offline",
           "source_commits": [], "add_only": True},
 "engines": [{"name": "coq-model+correspondence", "path": "/verif/coq, /verif/ocaml, /verif/harness, /verif/tools/check.py",
              "serves_properties": sorted(P.keys()),
              "kind_free_text": "Coq 8.16.1 development (model of the code, UAX#9 spec, judges, theorems) + translator for data + differential correspondence between the real crate and the extracted model"}],
 "checks": checks,
 "not_applicable": [],
 "notes": "All eight defects found on the pinned tree were repaired by fix: commits in /repo (known_findings.txt). The public API suffices for every observation; no hook is currently needed.",
}
json.dump(m, open(os.path.join(ROOT, "MANIFEST.json"), "w"), indent=1)
print("MANIFEST.json written:", {c["property_id"]: c["level_claimed"]["category"] for c in checks})
