#!/usr/bin/env python3
"""Writes MANIFEST.json from the table below and coq/Props/index.json (which theorems are closed)."""
import json, os
ROOT = os.path.dirname(os.path.dirname(os.path.abspath(__file__)))
idx_path = os.path.join(ROOT, "coq", "Props", "index.json")
idx = json.load(open(idx_path)) if os.path.exists(idx_path) else {}

TB = ("Trusted: Coq 8.16.1 kernel and vm_compute (no native_compute); no axioms declared (Print Assumptions of every property theorem is "
      "checked on each run); rs2v (syn-based translator: tables, constants and 50 functions of the source regenerated into Coq on each run; cross-checked by tools/gen_tables.py; u8 arithmetic checked, machine-word overflow of usize counters not modelled); extraction with ExtrOcamlBasic only and ocaml/driver.ml "
      "(parsing/printing glue); the Rust harness; Spec.v as a transcription of UAX #9 rev. 50; rustc/core behaviour "
      "(char_indices, len_utf8/16, decode_utf16, binary_search_by, stable sort) as modelled in ModelText.v.")

# property -> (design section, technique, what the check gives when no full theorem is closed yet)
P = {
 "C01": ("5/C01", "Rocq/Coq proof: stage-by-stage agreement of the executable model with a Gallina specification of UAX#9 (X1-X8, BD7, BD13/X10, W1-W7, BD16/N0-N2, I1/I2) at character level + length independence; open stages decided by the extracted judge C01_judge on the real crate's outputs; model tied to /repo by differential correspondence; class predicates (is_NI, removed_by_x9, is_rtl) additionally tied by translation of the source (SrcTiePreds.v); explicit::compute (X1-X8), resolve_levels (I1/I2) and assign_levels_to_removed_chars translated from the source and proved equal to the model functions"),
 "C02": ("5/C02", "Rocq/Coq proof: compute_initial_info model = Spec P1-P3/X5c for every text and encoding, judge-form theorem C02_final; differential correspondence on InitialInfo/BidiInfo/ParagraphBidiInfo fields; compute_initial_info itself translated from the current source by rs2v and proved equal to the model function for every input (tie_compute_initial_info)"),
 "C03": ("5/C03", "Rocq/Coq proof: reordered_levels(_per_char) model = Spec.l1 inside the line, unchanged outside, every encoding (C03_final); differential correspondence on reordered_levels(_per_char); the L1 loop reorder_levels is additionally translated from the current source by rs2v and proved equal to the model function (tie_reorder_levels)"),
 "C04": ("5/C04", "Rocq/Coq proof: reorder_visual model = Spec.l2, permutation, identity without odd levels, for all level vectors; differential correspondence on level vectors; reorder_visual and its nested next_range (while let / loop on explicit fuel) translated from the current source by rs2v and proved equal to the model function for every level vector and every sufficient fuel (tie_reorder_visual)"),
 "C05": ("5/C05", "Rocq/Coq proof: visual_runs model partitions the line into maximal level runs in L2 order, deprecated variant equal, for all level vectors and lines; differential correspondence on visual_runs + deprecated; visual_runs_for_line (level-run scan and the three nested while loops of L2) translated from the current source by rs2v and proved equal to the model function for every input and every sufficient fuel (tie_visual_runs_for_line)"),
 "C06": ("5/C06", "Rocq/Coq proof: reorder_line model = the line's characters permuted by L2 of the L1 levels, every encoding incl. ill-formed UTF-16 (C06_final, LL_reorder_line2); differential correspondence; the run computation visual_runs_for_line and the str version of reorder_line itself are tied by translation + proof (tie_visual_runs_for_line, tie_reorder_line)"),
 "C07": ("5/C07", "Rocq/Coq proof over a panic-as-value model: every API function returns Ok on every valid case (C07_final); judge = no API call of the real crate panicked, all generator families"),
 "C08": ("5/C08", "Rocq/Coq proof: vectors are per-code-unit expansions of the character-level analysis (length independence), levels within [paragraph level,126] (C08_final); judge on stored and line levels"),
 "C09": ("5/C09", "Rocq/Coq proof: one generic model for both encodings, length independence of every stage and line query, C18 ([u16] access = lossy decoding); paired judge C09_judge on every UTF-16 case and its UTF-8 twin; the UTF-16 char_at is tied by translation (tie_char_at16)"),
 "C10": ("5/C10", "Rocq/Coq proof: paragraph independence of the scanner and the per-paragraph pipeline, single-paragraph type agrees (C10_statement, C10_final); judge on paragraph substrings and both analysis types; the scanner compute_initial_info is tied to the model by translation + proof (tie_compute_initial_info)"),
 "C11": ("5/C11", "Rocq/Coq proof: explicit levels <= 125 and = X1-X8 with overflow counters at any depth, resolved levels <= 126, BD16 with the 63 limit; regenerated constants; judge on inputs that reach the limits; MAX_DEPTH and the BD16 limit const-evaluated from the source by rs2v; Level arithmetic tied by translation (SrcTieLevel.v); explicit::compute (X1-X8) itself translated from the current source by rs2v and proved equal to the model's explicit_compute for every input (tie_explicit_compute)"),
 "C12": ("5/C12", "Rocq/Coq proof: extensionality of the model in the data source, length independence, every stage theorem for an arbitrary data source; adversarial data sources through the judges"),
 "C13": ("5/C13", "Rocq/Coq proof about the specification (paragraph level and X1-X8 outside a matched isolate unchanged); relational judge C13_judge on pairs of texts for the W/N part; the X1-X8 function of the source is tied to the model by translation + proof (tie_explicit_compute)"),
 "C14": ("5/C14", "Rocq/Coq proof on the table regenerated from tables.rs on every run: sorted, disjoint, halving search = linear lookup, equal to the committed UCD 16.0 reference on every code point; exhaustive tie over all scalars through the public API; the lookup function itself (binary search with the source's comparator) translated from the source and proved equal to the model (tie_class_lookup)"),
 "C15": ("5/C15", "Rocq/Coq proof on the regenerated bracket table: structure and equality with the committed reference on every code point; exhaustive tie over all scalars through the public trait method; the lookup loop translated from the source and proved equal to the model (tie_bracket_lookup)"),
 "C16": ("5/C16", "Rocq/Coq proof: get_base_direction model = Spec P2/P3, agrees with the analysis (C16_final); differential correspondence on 4 entry points x 2 encodings; get_base_direction_impl additionally translated from the current source by rs2v and proved equal to the model function (tie_base_direction); the analysis-side scan compute_initial_info is tied by translation + proof as well"),
 "C17": ("5/C17", "Rocq/Coq proof: direction / level_at / has_rtl models consistent with the levels (C17_final); judge C17_judge; para_direction additionally translated from the current source by rs2v and proved equal to the model function (tie_para_direction); BidiInfo::has_rtl, ParagraphBidiInfo::has_rtl and ParagraphBidiInfo::direction translated as well and proved equal to the model's queries (SrcTieGlue.v)"),
 "C18": ("5/C18", "Rocq/Coq proof: char_at/iterators = lossy decoding, all next/next_back interleavings = ideal deque; differential correspondence incl. exhaustive small programs; <[u16] as TextSource>::char_at additionally translated from the current source by rs2v and proved equal to the model's char_at16 (tie_char_at16)"),
 "C19": ("5/C19", "Rocq/Coq proof by lia over all nat arguments; exhaustive tie over the whole u8 domain in debug and release builds; every Level function translated from the current source by rs2v and proved equal to the model on the whole u8 domain (SrcTieLevel.v: 15 tie lemmas)"),
 "C20": ("5/C20", "differential correspondence across five feature builds (byte-identical outputs, default build tied to the Coq model) + serde round trip; no theorem can quantify over cargo features"),
}

checks = []
for pid, (ref, tech) in sorted(P.items()):
    e = idx.get(pid, {})
    full = bool(e.get("full"))
    cat = "proof" if full else "other"
    thms = ", ".join(e.get("theorems", []))
    if full:
        text = ("Machine-checked Coq theorem(s) %s about the executable model of the code, for all inputs; the model is tied to /repo on every run "
                "by the regenerated data model and by the correspondence check (same seeded cases through the real crate and the extracted model, "
                "field by field). %s" % (thms, e.get("statement", "")))
    elif pid == "C20":
        text = ("Correspondence only: the five feature builds must print byte-identical results on the shared case file, and the default build is "
                "compared with the extracted Coq model; Level round-trips through serde_json for all 127 levels. The Coq model has no features, so no "
                "theorem quantifies over them (DESIGN 5/C20).")
    else:
        text = ("Partial machine-checked proof%s; the remaining part of the statement is decided on the real crate's outputs by the extracted "
                "Gallina judge %s_judge (the same predicate the theorems are stated with) plus the model/implementation correspondence over all "
                "generator families. %s" % ((" (" + thms + ")") if thms else " (model and specification are in Coq; no property theorem closed yet)", pid, e.get("partial_note", "")))
    checks.append({
        "property_id": pid,
        "quick_cmd": "./check %s" % pid,
        "thorough_cmd": "./check %s --tier thorough" % pid,
        "evidence_file": "/verif/evidence/%s.json" % pid,
        "replay_cmd_template": "./check replay {path}",
        "engine": "coq-model+correspondence",
        "level_claimed": {"category": cat, "text": text, "design_ref": "DESIGN.md section " + ref},
        "level_note": TB,
        "technique": tech,
    })

m = {
 "version": 1,
 "setup_cmd": "./check setup",
 "hooks": {"guard": "unicode_bidi_verif", "enable": "RUSTFLAGS='--cfg unicode_bidi_verif' (set by tools/check.py when building the harness)",
           "baseline_off_cmd": "cd /repo && cargo test --workspace --no-fail-fast --offline",
           "source_commits": [], "add_only": True},
 "engines": [{"name": "coq-model+correspondence", "path": "/verif/coq, /verif/rs2v, /verif/ocaml, /verif/harness, /verif/tools/check.py",
              "serves_properties": sorted(P.keys()),
              "kind_free_text": "Coq 8.16.1 development (model of the code, UAX#9 spec, judges, theorems) + source translator rs2v (data and 50 functions, with tie theorems) + differential correspondence between the real crate and the extracted model"}],
 "checks": checks,
 "not_applicable": [],
 "notes": "All eleven defects found on the pinned tree (D1-D11) were repaired by fix: commits in /repo (known_findings.txt). The public API suffices for every observation; no hook is needed (hooks.source_commits is empty).",
}
json.dump(m, open(os.path.join(ROOT, "MANIFEST.json"), "w"), indent=1)
print("MANIFEST.json written:", {c["property_id"]: c["level_claimed"]["category"] for c in checks})
