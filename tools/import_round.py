#!/usr/bin/env python3
"""import_round.py <root> <prefix>: file the confirmed seeded changes of a sub-agent round under
/verif/seeded/<prefix>-<id><x>/ (patch.diff, demo.rs, meta.json) and print the table rows for DESIGN.md.
<root>/<id>.out/{patch_x.diff,demo_x.rs,notes_x.json,result_x.txt} are what tools/try_mutant2.sh leaves."""
import glob, json, os, re, shutil, sys
root, prefix = sys.argv[1], sys.argv[2]
ROOT = os.path.dirname(os.path.dirname(os.path.abspath(__file__)))
rows = []
for res in sorted(glob.glob(os.path.join(root, "*.out", "result_*.txt"))):
    m = re.search(r"/([A-Z]\w+)\.out/result_(\w)\.txt$", res)
    mid, x = m.group(1), m.group(2)
    out = os.path.dirname(res)
    txt = open(res).read()
    base = re.search(r"demo on unchanged: \[(.*?)\]", txt)
    suite = re.search(r"suite with change:\s+\[(.*?)\]", txt)
    demo = re.search(r"demo with change:\s+\[(.*?)\]", txt)
    builds = re.search(r"build errors .*?: (\d+) (\d+) (\d+) (\d+)", txt)
    caught = re.search(r"RESULT \S+: caught by:(.*)", txt)
    if not (base and suite and demo and caught): continue
    confirmed = ("ok." in base.group(1) and "FAILED" not in suite.group(1) and "FAILED" in demo.group(1)
                 and (not builds or builds.groups() == ("0", "0", "0", "0")))
    try:
        notes = json.load(open(os.path.join(out, "notes_%s.json" % x)))
    except Exception:
        notes = {}
    prop = notes.get("property", mid if mid.startswith("C") else "?")
    viol = [l.strip() for l in txt.splitlines() if l.strip().startswith("VIOLATION")]
    d = os.path.join(ROOT, "seeded", "%s-%s%s" % (prefix, mid, x))
    if confirmed:
        os.makedirs(d, exist_ok=True)
        shutil.copy(os.path.join(out, "patch_%s.diff" % x), os.path.join(d, "patch.diff"))
        shutil.copy(os.path.join(out, "demo_%s.rs" % x), os.path.join(d, "demo.rs"))
        json.dump({"property": prop, "summary": notes.get("summary", ""), "needs": notes.get("needs", ""),
                   "smallest_failing_input": notes.get("smallest_failing_input", ""), "files": notes.get("files", []),
                   "author": "fresh sub-agent given only the property text and a scratch worktree of /repo",
                   "confirmed_by_me": {"demo_on_unchanged_tree": base.group(1), "existing_suite_with_change": suite.group(1),
                                       "demo_with_change": demo.group(1), "build_errors_four_feature_sets": builds.groups() if builds else None,
                                       "how": "tools/try_mutant2.sh: scratch worktree; demo on the unchanged tree; git apply; four feature builds; cargo test --offline without the demo; cargo test --test demo; then the patch applied to a worktree copy of /repo, every quick check run, worktree restored"},
                   "caught_by_checks": caught.group(1).split(), "violation_lines": viol}, open(os.path.join(d, "meta.json"), "w"), indent=1)
    own = prop in caught.group(1).split()
    rows.append((mid + x, prop, confirmed, caught.group(1).strip(), own, notes.get("summary", "")[:140].replace("|", "/"), notes.get("needs", "")[:140].replace("|", "/")))
for r in rows:
    print("| %s | %s | %s | %s | %s | %s |" % (r[0], r[1], r[5], r[6], r[3] or "— (missed)", "yes" if r[4] else "NO"))
print("confirmed %d of %d; caught %d; caught by own property's check %d" % (sum(1 for r in rows if r[2]), len(rows), sum(1 for r in rows if r[3]), sum(1 for r in rows if r[4])), file=sys.stderr)
