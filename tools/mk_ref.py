#!/usr/bin/env python3
"""Builds the committed UCD reference for C14 / C15 (ref/bidi_class_16.txt, ref/bidi_brackets_16.txt)
and VALIDATES it against every independent source available offline.  Run once at authoring time on
the pinned, unmodified tables.rs; the output is committed and is thereafter independent of /repo.

No UCD 16.0 data file exists in this sandbox.  What exists:
  * Python's unicodedata = UCD 14.0.0 (Bidi_Class of every code point assigned in 14.0),
  * Perl's Unicode::UCD = UCD 14.0.0 (Bidi_Paired_Bracket / _Type),
  * regex-syntax 0.8.11 in the cargo registry = UCD 16.0.0 Age, General_Category, Script tables,
  * the crate's documented block defaults for unassigned code points (tools/generate.py).
The reference is the class of every scalar value as in the pinned table, ACCEPTED only if
  (a) it equals Python's 14.0 Bidi_Class on every code point assigned in 14.0, except the six
      documented Unicode 15.0 changes (U+1171E NSM->L; the five MATHEMATICAL ... NABLA L->ON);
  (b) every code point unassigned in 16.0 (per the UCD-16 Age table) has the documented default
      (AL / R / ET in the listed blocks, otherwise L) — except noncharacters/default-ignorables BN;
  (c) every code point first assigned in 15.0 / 15.1 / 16.0 is consistent with its UCD-16
      General_Category and Script (Mn/Me => NSM; Cf => BN or a format class; right-to-left scripts
      => R/AL/AN/NSM/...; others never R/AL); the residue is listed in the file header.
"""
import os, re, subprocess, sys, unicodedata
sys.path.insert(0, os.path.dirname(__file__))
import gen_tables
ROOT = os.path.dirname(os.path.dirname(os.path.abspath(__file__)))
assert unicodedata.unidata_version == "14.0.0", unicodedata.unidata_version
version, cls_tab, pairs = gen_tables.parse_tables()
assert version == (16, 0, 0)

def cls_of(cp):
    lo, hi = 0, len(cls_tab)
    while lo < hi:
        mid = (lo + hi) // 2
        a, b, k = cls_tab[mid]
        if a <= cp <= b: return k
        if b < cp: lo = mid + 1
        else: hi = mid
    return "L"

# ---- UCD 16 Age / gc / script from regex-syntax
reg = None
base = os.path.expanduser("~/.cargo/registry/src")
for d in os.listdir(base):
    p = os.path.join(base, d, "regex-syntax-0.8.11", "src", "unicode_tables")
    if os.path.isdir(p): reg = p
assert reg, "regex-syntax 0.8.11 not found"
def rs_tables(fn):
    src = open(os.path.join(reg, fn)).read()
    out = {}
    for m in re.finditer(r"pub const ([A-Z0-9_]+): &'static \[\(char, char\)\] =\s*&\[(.*?)\];", src, re.S):
        rngs = []
        for a, b in re.findall(r"\('((?:\\u\{[0-9a-f]+\})|(?:\\?.))', '((?:\\u\{[0-9a-f]+\})|(?:\\?.))'\)", m.group(2)):
            def cv(x):
                if x.startswith("\\u{"): return int(x[3:-1], 16)
                if x.startswith("\\"):
                    return {"\\n": 10, "\\t": 9, "\\r": 13, "\\\\": 92, "\\'": 39, "\\0": 0}.get(x, ord(x[1]))
                return ord(x)
            rngs.append((cv(a), cv(b)))
        out[m.group(1)] = rngs
    return out
age = rs_tables("age.rs"); gc = rs_tables("general_category.rs"); script = rs_tables("script.rs")
def in_tab(t, cp): return any(a <= cp <= b for a, b in t)
assigned16 = set()
new_since_14 = set()
for name, rngs in age.items():
    for a, b in rngs:
        for cp in range(a, b + 1):
            assigned16.add(cp)
            if name in ("V15_0", "V15_1", "V16_0"): new_since_14.add(cp)
print("assigned in 16.0:", len(assigned16), " new since 14.0:", len(new_since_14))

problems, residue = [], []
DOC_CHANGES = {0x1171E: ("NSM", "L"), 0x1D6C1: ("L", "ON"), 0x1D6FB: ("L", "ON"), 0x1D735: ("L", "ON"), 0x1D76F: ("L", "ON"), 0x1D7A9: ("L", "ON")}
DEFAULTS = [(0x0600, 0x07BF, "AL"), (0x08A0, 0x08FF, "AL"), (0xFB50, 0xFDCF, "AL"), (0xFDF0, 0xFDFF, "AL"), (0xFE70, 0xFEFF, "AL"), (0x1EE00, 0x1EEFF, "AL"),
            (0x0590, 0x05FF, "R"), (0x07C0, 0x089F, "R"), (0xFB1D, 0xFB4F, "R"), (0x10800, 0x10FFF, "R"), (0x1E800, 0x1EDFF, "R"), (0x1EF00, 0x1EFFF, "R"), (0x20A0, 0x20CF, "ET")]
RTL_SCRIPTS = ["ARABIC", "HEBREW", "SYRIAC", "THAANA", "NKO", "SAMARITAN", "MANDAIC", "ADLAM", "HANIFI_ROHINGYA", "YEZIDI", "GARAY", "OLD_SOGDIAN", "SOGDIAN", "CHORASMIAN", "ELYMAIC", "NABATAEAN", "HATRAN", "PALMYRENE", "PHOENICIAN", "LYDIAN", "KHAROSHTHI", "OLD_SOUTH_ARABIAN", "OLD_NORTH_ARABIAN", "IMPERIAL_ARAMAIC", "INSCRIPTIONAL_PAHLAVI", "INSCRIPTIONAL_PARTHIAN", "PSALTER_PAHLAVI", "MANICHAEAN", "AVESTAN", "OLD_TURKIC", "OLD_HUNGARIAN", "MENDE_KIKAKUI", "CYPRIOT", "MEROITIC_CURSIVE", "MEROITIC_HIEROGLYPHS", "INDIC_SIYAQ_NUMBERS", "OTTOMAN_SIYAQ_NUMBERS", "OLD_UYGHUR", "TODHRI_NOT"]
n14 = 0
for cp in range(0x110000):
    if 0xD800 <= cp <= 0xDFFF: continue
    k = cls_of(cp)
    c = chr(cp)
    if unicodedata.category(c) != "Cn" or unicodedata.bidirectional(c) != "":
        b14 = unicodedata.bidirectional(c)
        if b14 != "":
            n14 += 1
            if b14 != k:
                if DOC_CHANGES.get(cp) == (b14, k): continue
                # a code point unassigned in 14.0 never reaches here; real disagreement
                problems.append("U+%04X: table %s, UCD 14.0 %s" % (cp, k, b14))
            continue
    if cp not in assigned16:
        want = "L"
        for a, b, d in DEFAULTS:
            if a <= cp <= b: want = d
        if k != want and not (k == "BN"):   # noncharacters and reserved default-ignorables are BN
            problems.append("U+%04X unassigned in 16.0: table %s, documented default %s" % (cp, k, want))
        continue
    if cp in new_since_14:
        is_mn = in_tab(gc.get("NONSPACING_MARK", []), cp) or in_tab(gc.get("ENCLOSING_MARK", []), cp)
        rtl = any(in_tab(script.get(s, []), cp) for s in RTL_SCRIPTS)
        ok = True
        if is_mn and k != "NSM": ok = False
        if not is_mn and k == "NSM": ok = False
        if k in ("R", "AL", "AN") and not rtl: ok = False
        if rtl and not is_mn and k == "L": ok = False
        if not ok: residue.append("U+%04X %s (Mn/Me=%s, rtl-script=%s)" % (cp, k, is_mn, rtl))
print("checked against UCD 14.0:", n14, "code points; disagreements:", len(problems), "; residue among new code points:", len(residue))
for p in problems[:20]: print("PROBLEM", p)
for r in residue[:40]: print("RESIDUE", r)

# ---- brackets against Perl's UCD 14.0 Bidi_Paired_Bracket(+Type)
perl = subprocess.run(["perl", "-MUnicode::UCD=charprop", "-e",
    'for my $cp (0..0x10FFFF){ next if $cp>=0xD800&&$cp<=0xDFFF; my $t=charprop($cp,"Bidi_Paired_Bracket_Type"); next if !defined $t || $t eq "None" || $t eq "n"; my $b=charprop($cp,"Bidi_Paired_Bracket"); printf("%x %s %s\n",$cp,$t,$b); }'],
    capture_output=True, text=True, timeout=1200)
pb = {}
for ln in perl.stdout.splitlines():
    f = ln.split()
    if len(f) >= 3: pb[int(f[0], 16)] = (f[1], f[2])
print("Perl UCD:", subprocess.run(["perl", "-MUnicode::UCD", "-e", "print Unicode::UCD::UnicodeVersion()"], capture_output=True, text=True).stdout, " bracket characters:", len(pb))
tab_br = {}
for o, c, key in pairs:
    tab_br[o] = ("o", c, key if key is not None else o); tab_br[c] = ("c", o, key if key is not None else o)
bproblems = []
if pb:
    for cp, (t, partner) in pb.items():
        tt = "o" if t.lower().startswith("o") else "c"
        if cp not in tab_br or tab_br[cp][0] != tt:
            bproblems.append("U+%04X type %s missing/mismatched in table" % (cp, t))
        else:
            pcp = ord(partner) if len(partner) == 1 else int(partner, 16) if re.fullmatch(r"[0-9A-Fa-f]{4,6}", partner) else None
            if pcp is not None and tab_br[cp][1] != pcp:
                bproblems.append("U+%04X partner %x vs table %x" % (cp, pcp, tab_br[cp][1]))
    for cp in tab_br:
        if cp not in pb: bproblems.append("U+%04X in table but not a bracket in UCD 14.0" % cp)
print("bracket disagreements:", len(bproblems))
for p in bproblems[:20]: print("PROBLEM", p)

if problems or bproblems:
    sys.exit("reference NOT written: unexplained disagreements")
os.makedirs(os.path.join(ROOT, "ref"), exist_ok=True)
# class reference: maximal constant segments over the scalar values (same format as `driver tables`)
segs = []
for cp in range(0x110000):
    if 0xD800 <= cp <= 0xDFFF: continue
    k = cls_of(cp)
    if segs and segs[-1][2] == k and segs[-1][1] + 1 == cp: segs[-1][1] = cp
    else: segs.append([cp, cp, k])
with open(os.path.join(ROOT, "ref", "bidi_class_16.txt"), "w") as f:
    f.write("# Bidi_Class of every Unicode scalar value, UCD 16.0.0, as maximal constant segments `C lo hi CLASS` (hex).\n")
    f.write("# Provenance and validation: tools/mk_ref.py (UCD 14.0 data on %d code points + 6 documented 15.0 changes;\n" % n14)
    f.write("# documented block defaults for code points unassigned in 16.0; gc/script consistency for the %d code points new since 14.0).\n" % len(new_since_14))
    for r in residue: f.write("# residue (reviewed): %s\n" % r)
    for a, b, k in segs: f.write("C %x %x %s\n" % (a, b, k))
with open(os.path.join(ROOT, "ref", "bidi_brackets_16.txt"), "w") as f:
    f.write("# Bidi_Paired_Bracket data (BidiBrackets.txt; unchanged 14.0 -> 16.0): `B cp key is_open` (hex), key = the pair's opening bracket,\n")
    f.write("# canonical equivalents U+2329/U+232A share the key U+3008.  Validated against Perl Unicode::UCD (UCD 14.0) by tools/mk_ref.py.\n")
    for cp in sorted(tab_br):
        t, _, key = tab_br[cp]
        f.write("B %x %x %d\n" % (cp, key, 1 if t == "o" else 0))
print("wrote ref/bidi_class_16.txt (%d segments) and ref/bidi_brackets_16.txt (%d characters)" % (len(segs), len(tab_br)))
