#!/usr/bin/env python3
"""Runner for the per-property checks (DESIGN 4.10).

  check.py setup                       build everything from files on disk (Coq, extraction, OCaml, harness)
  check.py check <Cxx> [--tier T]      decide one property on /repo's current working tree
  check.py replay <file>               re-run the single case recorded in a replay file

A check = (1) regenerate the data model from /repo and rebuild the Coq development (all theorems
re-checked by coqc; no Admitted/Axiom; Print Assumptions allow-listed), (2) rebuild the Rust harness
against /repo, (3) correspondence: the real crate and the extracted model run the same seeded case
file and are compared field by field, and the extracted judges are applied to what the real crate
returned, (4) decide, search for a failing input if something broke, write evidence.
Stages 1-3 are shared between properties through a content-addressed cache under .cache/."""
import fcntl, hashlib, json, os, re, shutil, subprocess, sys, time

ROOT = os.path.dirname(os.path.dirname(os.path.abspath(__file__)))
REPO = "/repo"
CACHE = os.path.join(ROOT, ".cache")
COQ = os.path.join(ROOT, "coq")
ENV = dict(os.environ, CARGO_NET_OFFLINE="true", CARGO_TARGET_DIR=os.path.join(CACHE, "harness-target"))
NPROC = 16
PROPS = ["C%02d" % i for i in range(1, 21)]

ALLOWED_AXIOMS = set()   # target: every property theorem "Closed under the global context"

# which observable fields each property depends on (a disagreement between model and
# implementation on a field only concerns these properties)
FIELD_PROPS = {
    "ii": ["C02", "C08", "C12"],
    "bi": ["C01", "C02", "C07"], "pi": ["C01", "C02", "C07"],
    "bi.classes": ["C02", "C08", "C12"], "pi.classes": ["C02", "C08", "C12"],
    "bi.levels": ["C01", "C08", "C11", "C12"], "pi.levels": ["C01", "C08", "C11", "C12"],
    "bi.paras": ["C02", "C16"], "pi.level": ["C02", "C16"], "pi.pure": ["C17"],
    "bi.has_rtl": ["C17"], "bi.dirs": ["C17"], "bi.level_at": ["C17"], "pi.has_rtl": ["C17"], "pi.dir": ["C17"],
    # (C12 inherits a disagreement only from cases that use a caller-supplied data source: see relevant())
    "bi.rl": ["C03", "C08", "C12"], "bi.rlc": ["C03", "C08", "C12"], "pi.rl": ["C03", "C08", "C12"], "pi.rlc": ["C03", "C08", "C12"],
    "bi.vr": ["C05", "C12"], "bi.dvr": ["C05"], "pi.vr": ["C05", "C12"], "pi.dvr": ["C05"],
    "bi.ro": ["C06", "C12"], "pi.ro": ["C06", "C17", "C12"], "bi.rv": ["C04"], "pi.rv": ["C04"],
    "bi.lines": ["C03", "C05", "C06", "C12"], "pi.lines": ["C03", "C05", "C06", "C12"],
    "bd": ["C16"], "bdf": ["C16"], "sub": ["C01"],
    "rv": ["C04"], "same": ["C04"],
    "iter": ["C18"], "len": ["C18"], "ca": ["C18"], "ci": ["C18"], "il": ["C18"], "ch": ["C18"], "rev": ["C18"],
}
# C09, C10 and C13 are relations between outputs of the implementation itself; they are decided by
# their (paired) judges, not by model/implementation disagreements.

def log(msg):
    sys.stderr.write("[check] %s\n" % msg); sys.stderr.flush()

def sh(cmd, timeout=3600, cwd=None, env=None, stdout=None):
    t0 = time.time()
    p = subprocess.run(cmd, shell=isinstance(cmd, str), cwd=cwd, env=env or ENV, timeout=timeout,
                       stdout=stdout or subprocess.PIPE, stderr=subprocess.STDOUT, text=True)
    return p.returncode, (p.stdout or ""), time.time() - t0

def sha(paths):
    h = hashlib.sha256()
    for p in sorted(paths):
        h.update(p.encode()); h.update(b"\0")
        with open(p, "rb") as f: h.update(f.read())
        h.update(b"\0")
    return h.hexdigest()

def repo_files():
    out = []
    for base, _, files in os.walk(os.path.join(REPO, "src")):
        out += [os.path.join(base, f) for f in files]
    out += [os.path.join(REPO, "Cargo.toml"), os.path.join(REPO, "Cargo.lock")]
    return [p for p in out if os.path.exists(p)]

GENERATED_V = ("TablesGen.v", "ConstsGen.v", "SrcGen.v", "SrcTieLevel.v", "SrcTieTables.v", "SrcTiePreds.v", "SrcTieDir.v", "SrcTieBaseDir.v", "SrcTieL1.v", "SrcTiePipe.v", "SrcTieUtf16.v", "SrcTieUtf16Iter.v", "SrcAgreeExplicit.v", "SrcTieExplicit.v", "SrcTieInitial.v", "SrcTieRuns.v", "SrcTieVisual.v", "SrcTieGlue.v", "SrcTieLine.v")

def verif_files():
    out = []
    for d, exts in (("coq", (".v", ".in")), ("harness/src", (".rs",)), ("rs2v/src", (".rs",)), ("ocaml", (".ml",)), ("tools", (".py",)), ("corpus", (".txt",))):
        for base, _, files in os.walk(os.path.join(ROOT, d)):
            out += [os.path.join(base, f) for f in files if f.endswith(exts) and f not in GENERATED_V]
    out += [os.path.join(ROOT, "harness/Cargo.toml"), os.path.join(ROOT, "coq/_CoqProject"), os.path.join(ROOT, "rs2v/Cargo.toml")]
    return [p for p in out if os.path.exists(p)]

class Lock:
    def __enter__(self):
        os.makedirs(CACHE, exist_ok=True)
        self.f = open(os.path.join(CACHE, "lock"), "w"); fcntl.flock(self.f, fcntl.LOCK_EX); return self
    def __exit__(self, *a):
        fcntl.flock(self.f, fcntl.LOCK_UN); self.f.close()

# ---------------------------------------------------------------------------------------------
# stage 1: translator + Coq build + hygiene
def write_if_changed(path, content):
    old = open(path).read() if os.path.exists(path) else None
    if old != content:
        open(path, "w").write(content)

TIE_TEMPLATES = ["SrcTieLevel", "SrcTieTables", "SrcTiePreds", "SrcTieDir", "SrcTieBaseDir", "SrcTieL1", "SrcTiePipe", "SrcTieUtf16", "SrcTieUtf16Iter", "SrcAgreeExplicit", "SrcTieExplicit", "SrcTieInitial", "SrcTieRuns", "SrcTieVisual", "SrcTieGlue", "SrcTieLine"]
# which properties lean on which translated-source tie file
TIE_PROPS = {"C19": ["Proofs/SrcTieLevel.v"], "C14": ["Proofs/SrcTieTables.v"], "C15": ["Proofs/SrcTieTables.v"],
             "C01": ["Proofs/SrcTiePreds.v", "Proofs/SrcTiePipe.v", "Proofs/SrcAgreeExplicit.v", "Proofs/SrcTieExplicit.v"],
             "C11": ["Proofs/SrcTieLevel.v", "Proofs/SrcAgreeExplicit.v", "Proofs/SrcTieExplicit.v"],
             "C13": ["Proofs/SrcAgreeExplicit.v", "Proofs/SrcTieExplicit.v"],
             "C02": ["Proofs/SrcTieInitial.v"], "C10": ["Proofs/SrcTieInitial.v"], "C12": ["Proofs/SrcTieInitial.v"],
             "C03": ["Proofs/SrcTieL1.v"], "C18": ["Proofs/SrcTieUtf16.v", "Proofs/SrcTieUtf16Iter.v"], "C09": ["Proofs/SrcTieUtf16.v"], "C16": ["Proofs/SrcTieBaseDir.v", "Proofs/SrcTieInitial.v"], "C17": ["Proofs/SrcTieDir.v", "Proofs/SrcTieGlue.v"],
             "C05": ["Proofs/SrcTieRuns.v"], "C06": ["Proofs/SrcTieRuns.v", "Proofs/SrcTieLine.v"], "C04": ["Proofs/SrcTieVisual.v"]}
# the lemmas of a shared tie file a property leans on (None / absent = all of the file)
TIE_LEMMAS = {"C11": ["tie_max_depths", "tie_new_explicit", "tie_next_ltr", "tie_next_rtl", "tie_raise", "tie_lowest_ge_rtl",
                      "agree_explicit_short", "agree_explicit_two_units", "agree_explicit_at_the_limit", "tie_explicit_compute"]}
# a tie file that stops compiling is a broken obligation, except where the correspondence is EXHAUSTIVE over
# the function's whole (finite) domain and is therefore a complete tie on its own
TIE_FALLBACK_EXHAUSTIVE = {"C14", "C15"}

def srcgen_sha():
    """what a recorded tie failure is relative to: the translated source, the primitives and the lemma templates"""
    ps = [os.path.join(COQ, "SrcGen.v"), os.path.join(COQ, "RsPrelude.v")] + \
         [os.path.join(COQ, "Proofs", t + ".v.in") for t in TIE_TEMPLATES]
    return sha([p for p in ps if os.path.exists(p)])

def load_failed_blocks():
    """tie-lemma blocks known not to check against the current SrcGen.v: {block id: [lemma names]}"""
    p = os.path.join(CACHE, "tie_failed.json")
    if os.path.exists(p):
        d = json.load(open(p))
        if d.get("srcgen") == srcgen_sha():
            return d.get("blocks", {})
    return {}

def save_failed_blocks(blocks):
    json.dump({"srcgen": srcgen_sha(), "blocks": blocks}, open(os.path.join(CACHE, "tie_failed.json"), "w"))

def stage_translate(tmp, exclude=()):
    """rs2v (syn-based translator: data + small pure functions) on /repo's working tree; the older regex
    translator gen_tables.py is kept as an independent cross-check of the data part.
    Returns dict(ok, report, problems[], notes[])."""
    problems, notes = [], []
    env = dict(ENV, CARGO_TARGET_DIR=os.path.join(CACHE, "rs2v-target"))
    rc, out, _ = sh(["cargo", "build", "--offline", "--quiet", "--release"], cwd=os.path.join(ROOT, "rs2v"), env=env, timeout=1800)
    rs2v = os.path.join(CACHE, "rs2v-target", "release", "rs2v")
    report = {"translated": [], "skipped": [], "fatal": ["rs2v did not build: " + out[-300:]]}
    rs_ok = False
    if rc == 0 and os.path.exists(rs2v):
        d = os.path.join(tmp, "rs2v"); os.makedirs(d, exist_ok=True)
        for f in os.listdir(d): os.remove(os.path.join(d, f))
        rc, out, _ = sh([rs2v, REPO, d], env=dict(ENV, RS2V_EXCLUDE=",".join(exclude)))
        try:
            report = json.load(open(os.path.join(d, "rs2v_report.json")))
        except Exception:
            report = {"translated": [], "skipped": [], "fatal": ["rs2v crashed: " + out[-300:]]}
        rs_ok = rc == 0 and not report["fatal"]
    d2 = os.path.join(tmp, "py"); os.makedirs(d2, exist_ok=True)
    rc2, out2, _ = sh([sys.executable, os.path.join(ROOT, "tools/gen_tables.py"), d2])
    py_ok = rc2 == 0
    body = lambda path: "".join(l for l in open(path) if not l.startswith("(*") and "max_implicit_depth_src" not in l)
    if rs_ok:
        for f in ("TablesGen.v", "ConstsGen.v", "SrcGen.v"):
            write_if_changed(os.path.join(COQ, f), open(os.path.join(tmp, "rs2v", f)).read())
        if py_ok:
            for f in ("TablesGen.v", "ConstsGen.v"):
                if body(os.path.join(tmp, "rs2v", f)) != body(os.path.join(d2, f)):
                    problems.append("the two translators disagree on " + f)
        else:
            notes.append("cross-check translator gen_tables.py could not parse the source (%s); rs2v alone was used" % out2.strip()[-160:])
    elif py_ok:
        notes.append("rs2v failed (%s); data regenerated by gen_tables.py, no function translated" % "; ".join(report["fatal"])[:300])
        for f in ("TablesGen.v", "ConstsGen.v"):
            src = open(os.path.join(d2, f)).read()
            if f == "ConstsGen.v":
                m = re.search(r"Definition max_depth : nat := (\d+)\.", src)
                src = src.replace("Definition bracket_limit", "Definition max_implicit_depth_src : nat := %d.\nDefinition bracket_limit" % (int(m.group(1)) + 1))
            write_if_changed(os.path.join(COQ, f), src)
        write_if_changed(os.path.join(COQ, "SrcGen.v"), "(* rs2v failed: no function translated *)\nFrom BidiVerif Require Import Base ConstsGen TablesGen RsPrelude.\n")
        report["translated"] = []
    else:
        problems.append("translator failed: rs2v: %s; gen_tables.py: %s" % ("; ".join(report["fatal"])[:300], out2.strip()[-200:]))
    # tie files: keep the lemma blocks whose functions were translated; blocks that failed to check against
    # this very SrcGen.v on an earlier run (isolated by stage_coq) stay out
    have = set(r for r, _ in report.get("translated", []))
    kept, dropped = 0, []
    failed_blocks = load_failed_blocks()
    for t in TIE_TEMPLATES:
        src = open(os.path.join(COQ, "Proofs", t + ".v.in")).read()
        counter = [0]
        def sub(m):
            nonlocal kept
            counter[0] += 1
            bid = "%s#%d" % (t, counter[0])
            needs = m.group(1).split()
            if bid in failed_blocks:
                return "(*@ block %s FAILED to check against the current source *)\n" % bid
            if all(n in have for n in needs):
                kept += 1; return "(*@ block %s *)\n%s(*@ endblock *)\n" % (bid, m.group(2))
            dropped.append([n for n in needs if n not in have])
            return "(*@ block %s dropped: not translated: %s *)\n" % (bid, " ".join(n for n in needs if n not in have))
        res = re.sub(r"\(\*@ needs ([^*]*?)\*\)\n(.*?)\(\*@ end \*\)\n", sub, src, flags=re.S)
        write_if_changed(os.path.join(COQ, "Proofs", t + ".v"), res)
    return {"ok": not problems, "report": report, "problems": problems, "notes": notes, "tie_blocks_kept": kept,
            "tie_blocks_dropped": dropped}

def stage_coq():
    """Returns dict: ok, log, theorems (name -> assumptions text), failed_files"""
    status_path = os.path.join(CACHE, "coq_status.json")
    tmp = os.path.join(CACHE, "gen"); os.makedirs(tmp, exist_ok=True)
    tr = stage_translate(tmp)
    if not tr["ok"] and any(p.startswith("translator failed") for p in tr["problems"]):
        return {"ok": False, "translator_failed": True, "log": "; ".join(tr["problems"]), "theorems": {}, "failed": ["translator"],
                "translate": tr}
    # the committed Coq reference must be what the committed text reference says
    rc_ref, _, _ = sh([sys.executable, os.path.join(ROOT, "tools/mk_ucdref.py"), "--check"])
    key = sha([os.path.join(COQ, f) for f in os.listdir(COQ) if f.endswith(".v")] +
              [os.path.join(COQ, d, f) for d in ("Proofs", "Props") if os.path.isdir(os.path.join(COQ, d))
               for f in os.listdir(os.path.join(COQ, d)) if f.endswith(".v")] + [os.path.join(COQ, "_CoqProject")])
    if os.path.exists(status_path):
        st = json.load(open(status_path))
        if st.get("key") == key and os.path.exists(os.path.join(COQ, "bidi_model.ml")):
            tr["tie_failed_blocks"] = load_failed_blocks()
            st["translate"] = tr
            return st
    log("building the Coq development")
    sh("coq_makefile -f _CoqProject -o Makefile", cwd=COQ)
    rc, out, dt = sh("timeout 3000 make -k -j%d 2>&1" % NPROC, cwd=COQ, timeout=3100)
    # a translated function whose Gallina term does not type-check must not take the other ties down with it:
    # find the definition the error is in, exclude that function, translate again (a few rounds at most)
    excluded = []
    for _round in range(6):
        m = re.search(r'File "\./SrcGen\.v", line (\d+)', out)
        if not m: break
        lines = open(os.path.join(COQ, "SrcGen.v")).read().split("\n")
        name = None
        for ln in range(min(int(m.group(1)), len(lines)) - 1, -1, -1):
            mm = re.match(r"\(\* (\S+?)(?:  \[flow mode\])? \*\)$", lines[ln])
            if mm: name = mm.group(1); break
        if not name or name in excluded: break
        excluded.append(name)
        log("SrcGen.v: the term translated from %s does not type-check; excluding it" % name)
        tr = stage_translate(tmp, exclude=excluded)
        rc, out2, dt2 = sh("timeout 3000 make -k -j%d 2>&1" % NPROC, cwd=COQ, timeout=3100)
        out = out2; dt += dt2
    if excluded:
        tr.setdefault("notes", []).append("translated terms that did not type-check and were excluded: " + ", ".join(excluded))
    # a tie lemma that no longer checks must not take the other lemmas of its file (or the files importing it)
    # down with it: isolate the failing block, record its lemmas, rebuild
    failed_blocks = load_failed_blocks()
    for _round in range(16):
        m = re.search(r'File "\./Proofs/(SrcTie\w+)\.v", line (\d+)', out)
        if not m: break
        tf, eline = m.group(1), int(m.group(2))
        lines = open(os.path.join(COQ, "Proofs", tf + ".v")).read().split("\n")
        bid, start = None, None
        for ln in range(min(eline, len(lines)) - 1, -1, -1):
            mm = re.match(r"\(\*@ block (\S+) \*\)$", lines[ln])
            if mm: bid, start = mm.group(1), ln; break
            if lines[ln].startswith("(*@ endblock"): break
        if not bid or bid in failed_blocks: break
        end = next((k for k in range(start, len(lines)) if lines[k].startswith("(*@ endblock")), len(lines) - 1)
        failed_blocks[bid] = re.findall(r"^\s*(?:Lemma|Corollary|Theorem|Example)\s+(\w+)", "\n".join(lines[start:end]), re.M)
        log("tie block %s (%s) no longer checks against the current source; isolating it" % (bid, ", ".join(failed_blocks[bid])))
        save_failed_blocks(failed_blocks)
        tr = stage_translate(tmp, exclude=excluded)
        rc, out2, dt2 = sh("timeout 3000 make -k -j%d 2>&1" % NPROC, cwd=COQ, timeout=3100)
        out = out2; dt += dt2
    tr["tie_failed_blocks"] = failed_blocks
    failed = re.findall(r"\*\*\* \[[^\]]*?([A-Za-z0-9_/]+)\.vo\]", out)
    # a file that failed keeps its previous .vo, and make does not rebuild its dependents: remove those stale
    # objects so that nothing downstream of a broken proof can pass as "compiled"
    if failed:
        rdeps = {}
        rc_d, out_d, _ = sh("coqdep -f _CoqProject 2>/dev/null", cwd=COQ)
        for ln in out_d.splitlines():
            if ":" not in ln: continue
            lhs, rhs = ln.split(":", 1)
            tgt = [x for x in lhs.split() if x.endswith(".vo")]
            if not tgt: continue
            for dep in [x for x in rhs.split() if x.endswith(".vo")]:
                rdeps.setdefault(dep[:-3], set()).add(tgt[0][:-3])
        todo, stale = list(set(failed)), set()
        while todo:
            f = todo.pop()
            if f in stale: continue
            stale.add(f); todo += list(rdeps.get(f, []))
        for f in stale:
            for ext in (".vo", ".vok", ".vos", ".glob"):
                try: os.remove(os.path.join(COQ, f + ext))
                except OSError: pass
        failed = sorted(stale)
    # hygiene: no Admitted / axioms / disabled checks anywhere in the sources
    bad = []
    pat = re.compile(r"\b(Admitted|admit|Axiom|Axioms|Parameter|Parameters|Conjecture|Hypothesis|Variable\s+\w+\s*:\s*.*\bAxiom|Unset\s+Guard|bypass_check|type-in-type|impredicative-set|Admit\s+Obligations)\b")
    for base, _, files in os.walk(COQ):
        for f in files:
            if not f.endswith(".v"): continue
            src = open(os.path.join(base, f)).read()
            src_nc = re.sub(r"\(\*.*?\*\)", "", src, flags=re.S)
            for m in pat.finditer(src_nc):
                w = m.group(1)
                if w in ("Hypothesis",) or w.startswith("Variable"):
                    continue   # only allowed inside Sections; checked by coqc closing the section
                bad.append("%s: %s" % (f, w))
    # Print Assumptions output per property theorem
    theorems = {}
    for m in re.finditer(r"ASSUMPTIONS-OF (\S+)\n(.*?)END-ASSUMPTIONS", out, re.S):
        theorems[m.group(1)] = m.group(2).strip()
    if rc_ref != 0: bad.append("UcdRef.v differs from ref/*.txt (tools/mk_ucdref.py --check)")
    st = {"key": key, "ok": rc == 0 and not bad, "rc": rc, "failed": sorted(set(failed)), "hygiene": bad,
          "theorems": theorems, "wall_s": dt, "log_tail": out[-6000:], "translate": tr}
    json.dump(st, open(status_path, "w"), indent=1)
    open(os.path.join(CACHE, "coq_build.log"), "w").write(out)
    return st

# ---------------------------------------------------------------------------------------------
# stage 2: OCaml driver + Rust harness
def stage_driver():
    src = os.path.join(COQ, "bidi_model.ml")
    if not os.path.exists(src):
        return {"ok": False, "log": "extraction missing"}
    d = os.path.join(CACHE, "ocaml"); os.makedirs(d, exist_ok=True)
    key = sha([src, os.path.join(COQ, "bidi_model.mli"), os.path.join(ROOT, "ocaml/driver.ml")])
    kp = os.path.join(d, "key")
    if os.path.exists(kp) and open(kp).read() == key and os.path.exists(os.path.join(d, "driver")):
        return {"ok": True}
    for f in (src, os.path.join(COQ, "bidi_model.mli"), os.path.join(ROOT, "ocaml/driver.ml")):
        shutil.copy(f, d)
    rc, out, _ = sh("ocamlfind ocamlopt -w -a -O2 bidi_model.mli bidi_model.ml driver.ml -o driver 2>&1 || ocamlfind ocamlopt -w -a bidi_model.mli bidi_model.ml driver.ml -o driver", cwd=d)
    if rc == 0: open(kp, "w").write(key)
    return {"ok": rc == 0, "log": out[-3000:]}

def stage_harness(features=None, release=False):
    """cargo build the harness against /repo's working tree (cargo fingerprints the path dependency)."""
    hd = os.path.join(ROOT, "harness")
    lock = os.path.join(hd, "Cargo.lock")
    if not os.path.exists(lock):
        shutil.copy(os.path.join(REPO, "Cargo.lock"), lock)
    cmd = ["cargo", "build", "--offline", "--quiet"]
    tdir = ENV["CARGO_TARGET_DIR"]
    env = dict(ENV)
    if features is not None:
        cmd += ["--no-default-features", "--features", features]
        env["CARGO_TARGET_DIR"] = tdir = os.path.join(CACHE, "harness-target-" + re.sub(r"\W+", "_", features))
    if release: cmd.append("--release")
    env["RUSTFLAGS"] = "--cfg unicode_bidi_verif"
    rc, out, dt = sh(cmd, cwd=hd, env=env, timeout=1800)
    binp = os.path.join(tdir, "release" if release else "debug", "bidi-harness")
    return {"ok": rc == 0 and os.path.exists(binp), "bin": binp, "log": out[-4000:], "wall_s": dt}

# ---------------------------------------------------------------------------------------------
# stage 3: correspondence run
# Bounded-exhaustive tie (harness `enum` | driver `enum`): EVERY string of length 1..=maxlen over the alphabet, under the
# listed base directions, BidiInfo levels and paragraph levels of the real crate vs the extracted model.
ENUM_SPECS = {
    "quick": [
        "E 7 01 5d0,61,28,29,2067,2069",            # R L ( ) RLI PDI : brackets x isolates (BD13, BD16, N0-N2)
        "E 6 01 627,61,31,24,2066,2069,5d0",        # AL L EN ET LRI PDI R : weak rules across isolating run sequences
        # token level: whole matched isolates as single letters of the alphabet (sequences of several level runs)
        "E 5 01 627,61,5d0,31,24,2066+61+2069,2066+5d0+2069,2066+31+2069,2066+2069",
        "E 7 01 61,5d0,2066+61+2069,28,29",
        "E 6 01 61,5d0,21,ad,24,31",                # L R ON BN ET EN : removed characters inside weak / neutral runs (round 4, A1)
        "E 7 0 61,28,29,202b,202e,202c",            # L ( ) RLE RLO PDF : brackets across embedding / override boundaries (round 4, A3)
    ],
    "thorough": [
        "E 8 01 5d0,61,28,29,2067,2069",
        "E 9 01 627,61,31,2066,2069",               # AL L EN LRI PDI
        "E 7 01 627,61,31,24,2066,2069,5d0",
        "E 7 01 5d0,31,661,2b,2c,24,300,ad",        # R EN AN ES CS ET NSM BN : W1-W7 dense
        "E 7 0 61,5d0,202b,202d,202c,2066,2069,21", # L R RLE LRO PDF LRI PDI ON : X1-X8 with X9 removal
        "E 6 01 627,61,5d0,31,24,2066+61+2069,2066+5d0+2069,2066+31+2069,2066+2069,2067+61+2069",
        "E 8 01 61,5d0,2066+61+2069,2067+5d0+2069,28,29",
        "E 7 01 61,5d0,21,ad,24,31",
        "E 6 01 627,61,20,202c,24,31,661",          # AL L WS PDF ET EN AN
        "E 7 0 61,5d0,28,29,202b,202e,202c",        # L R ( ) RLE RLO PDF
    ],
}

def stage_enum(d, tier, hbin):
    """returns (stats, mismatch case lines)"""
    driver = os.path.join(CACHE, "ocaml", "driver")
    spec = os.path.join(d, "enum_spec.txt")
    open(spec, "w").write("\n".join(ENUM_SPECS.get(tier, ENUM_SPECS["quick"])) + "\n")
    procs = []
    for i in range(NPROC):
        cmd = "%s enum %s %d %d | %s enum %s %d %d" % (hbin, spec, i, NPROC, driver, spec, i, NPROC)
        procs.append(subprocess.Popen(cmd, shell=True, stdout=subprocess.PIPE, stderr=subprocess.STDOUT, text=True))
    compared, mism, errs = 0, [], []
    deadline = time.time() + (1200 if tier == "quick" else 3 * 3600)
    for i, p in enumerate(procs):
        try:
            out, _ = p.communicate(timeout=max(5, deadline - time.time()))
        except subprocess.TimeoutExpired:
            p.kill(); out, _ = p.communicate()
            errs.append("enum shard %d did not finish in time" % i); continue
        done = False
        for ln in out.splitlines():
            f = ln.split("\t")
            if f[0] == "ENUM-DONE":
                compared += int(f[1].split("=")[1]); done = True
            elif f[0] == "ENUM-MISMATCH":
                mism.append((f[1], f[2]))
        if not done: errs.append("enum shard %d did not finish: %s" % (i, out[-300:]))
    lines = ["T\t%d\t8\t%s\t%s\t-\t-\tE" % (3000000 + k, dr, cps) for k, (cps, dr) in enumerate(mism[:400])]
    return {"compared": compared, "mismatches": len(mism), "specs": ENUM_SPECS.get(tier, ENUM_SPECS["quick"]), "errors": errs}, lines

def split_cases(lines, n):
    """round-robin shards (balances the expensive deep cases); a line tagged twin:/iso: stays with
    its predecessor"""
    shards = [[] for _ in range(n)]
    k = -1
    for ln in lines:
        if not ((" twin:" in ln) or (" iso:" in ln)):
            k = (k + 1) % n
        shards[max(k, 0)].append(ln)
    return [s for s in shards if s]

def stage_corr(seed, tier, hbin, extra_cases=None, tag=""):
    key = sha(repo_files() + verif_files())[:24] + "-%d-%s%s" % (seed, tier, tag)
    d = os.path.join(CACHE, "corr", key)
    vp = os.path.join(d, "verdicts.txt")
    if os.path.exists(vp) and os.path.exists(os.path.join(d, "meta.json")):
        return d
    # keep the cache small
    base = os.path.join(CACHE, "corr")
    if os.path.isdir(base):
        olds = sorted((os.path.getmtime(os.path.join(base, x)), x) for x in os.listdir(base))
        for _, x in olds[:-3]:
            shutil.rmtree(os.path.join(base, x), ignore_errors=True)
    os.makedirs(d, exist_ok=True)
    t0 = time.time()
    cases = os.path.join(d, "cases.txt")
    gen_stats = {}
    if extra_cases is None:
        rc, out, _ = sh([hbin, "gen", "--seed", str(seed), "--tier", tier, "--out", os.path.join(d, "gen.txt")])
        if rc != 0: raise RuntimeError("generator failed: " + out)
        for m in re.finditer(r"genstat (\S+) (\d+)", out): gen_stats[m.group(1)] = int(m.group(2))
        lines = []
        cdir = os.path.join(ROOT, "corpus")
        if os.path.isdir(cdir):
            for f in sorted(os.listdir(cdir)):
                if f.endswith(".txt"):
                    lines += [l.rstrip("\n") for l in open(os.path.join(cdir, f)) if l.strip() and not l.startswith("#")]
        gen_stats["corpus"] = len(lines)
        lines += [l.rstrip("\n") for l in open(os.path.join(d, "gen.txt"))]
        os.remove(os.path.join(d, "gen.txt"))
    else:
        lines = extra_cases
    open(cases, "w").write("\n".join(lines) + "\n")
    shards = split_cases(lines, NPROC)
    procs = []
    driver = os.path.join(CACHE, "ocaml", "driver")
    for i, sl in enumerate(shards):
        cp = os.path.join(d, "cases_%d.txt" % i); open(cp, "w").write("\n".join(sl) + "\n")
        cmd = "%s run %s > %s && %s corr %s %s %s" % (hbin, cp, os.path.join(d, "impl_%d.txt" % i), driver, cp,
                                                   os.path.join(d, "impl_%d.txt" % i), os.path.join(d, "verdicts_%d.txt" % i))
        procs.append(subprocess.Popen(cmd, shell=True, stdout=subprocess.PIPE, stderr=subprocess.STDOUT, text=True))
    errs = []
    deadline = time.time() + (1800 if tier == "quick" else 4 * 3600)
    for i, p in enumerate(procs):
        try:
            out, _ = p.communicate(timeout=max(5, deadline - time.time()))
        except subprocess.TimeoutExpired:
            p.kill(); out, _ = p.communicate()
            errs.append("shard %d did not finish in time (the implementation or the model hangs on some case?)" % i); continue
        if p.returncode != 0: errs.append("shard %d: rc=%d %s" % (i, p.returncode, out[-500:]))
    with open(vp, "w") as vf:
        for i in range(len(shards)):
            f = os.path.join(d, "verdicts_%d.txt" % i)
            if os.path.exists(f):
                vf.write(open(f).read()); os.remove(f)
    with open(os.path.join(d, "impl.txt"), "w") as imf:
        for i in range(len(shards)):
            f = os.path.join(d, "impl_%d.txt" % i)
            if os.path.exists(f):
                imf.write(open(f).read()); os.remove(f)
            os.remove(os.path.join(d, "cases_%d.txt" % i))
    enum_stats = {}
    if extra_cases is None:
        enum_stats, elines = stage_enum(d, tier, hbin)
        errs += enum_stats.get("errors", [])
        if elines:
            # run the disagreeing strings through the full pipeline (fields, judges) like any other case
            ecp = os.path.join(d, "cases_enum.txt"); open(ecp, "w").write("\n".join(elines) + "\n")
            rc_e, out_e, _ = sh("%s run %s > %s && %s corr %s %s %s" % (hbin, ecp, os.path.join(d, "impl_enum.txt"), driver, ecp,
                                                                      os.path.join(d, "impl_enum.txt"), os.path.join(d, "verdicts_enum.txt")))
            if rc_e == 0:
                open(cases, "a").write("\n".join(elines) + "\n")
                open(vp, "a").write(open(os.path.join(d, "verdicts_enum.txt")).read())
                open(os.path.join(d, "impl.txt"), "a").write(open(os.path.join(d, "impl_enum.txt")).read())
                lines += elines
            else:
                errs.append("enum mismatches could not be re-run: " + out_e[-300:])
        gen_stats["enum.compared"] = enum_stats.get("compared", 0)
        gen_stats["enum.mismatches"] = enum_stats.get("mismatches", 0)
    json.dump({"seed": seed, "tier": tier, "cases": len(lines), "gen_stats": gen_stats, "errors": errs, "enum": enum_stats,
               "wall_s": time.time() - t0}, open(os.path.join(d, "meta.json"), "w"))
    return d

def load_verdicts(d):
    out = []
    for ln in open(os.path.join(d, "verdicts.txt")):
        f = ln.rstrip("\n").split("\t")
        if len(f) < 6: continue
        g = lambda s: [x for x in s.split("=", 1)[1].split(",") if x]
        out.append({"kind": f[0], "id": f[1], "fam": f[2], "diff": g(f[3]), "jfail": g(f[4]), "nt": g(f[5])})
    return out

def case_lines(d):
    m = {}
    for ln in open(os.path.join(d, "cases.txt")):
        f = ln.rstrip("\n").split("\t")
        if len(f) > 1: m[f[1]] = ln.rstrip("\n")
    return m

def impl_lines(d, ids):
    m = {}
    ids = set(ids)
    for ln in open(os.path.join(d, "impl.txt")):
        f = ln.split("\t", 2)
        if len(f) > 1 and f[1] in ids: m[f[1]] = ln.rstrip("\n")
    return m

# ---------------------------------------------------------------------------------------------
# proofs: which theorems back which property
def props_index():
    p = os.path.join(COQ, "Props", "index.json")
    return json.load(open(p)) if os.path.exists(p) else {}

def coq_closure(vfile):
    """transitive .v dependencies (inside the development) of a file, via coqdep"""
    rc, out, _ = sh("coqdep -f _CoqProject 2>/dev/null", cwd=COQ)
    deps = {}
    for ln in out.splitlines():
        if ":" not in ln: continue
        lhs, rhs = ln.split(":", 1)
        tgt = [x for x in lhs.split() if x.endswith(".vo")]
        if not tgt: continue
        deps[tgt[0][:-1]] = [x[:-1] for x in rhs.split() if x.endswith(".vo")]
    seen, todo = set(), [vfile]
    while todo:
        f = todo.pop()
        if f in seen: continue
        seen.add(f)
        todo += deps.get(f, [])
    return sorted(seen)

def proof_status(prop, coq):
    """Returns dict(ok, obligations, discharged, theorems{name: assumptions}, files, problems)"""
    idx = props_index().get(prop)
    if not idx:
        return {"ok": True, "present": False, "obligations": 0, "discharged": 0, "theorems": {}, "problems": [], "full": False}
    problems = []
    pfiles = [idx["file"]] + idx.get("extra_files", [])
    files = sorted(set(f for pf in pfiles for f in coq_closure(pf)))
    obligations = 0
    discharged = 0
    failed_set = set(coq.get("failed") or [])
    for f in files:
        src = re.sub(r"\(\*.*?\*\)", "", open(os.path.join(COQ, f)).read(), flags=re.S)
        n = len(re.findall(r"^\s*(?:Local\s+|Global\s+)?(?:Theorem|Lemma|Corollary|Example|Fact|Proposition|Remark)\s", src, re.M))
        obligations += n
        # compiled = the object exists and the last build (re-run whenever any source's content changes) did not fail
        # on it or on anything it depends on (stage_coq removes those objects); file times are not consulted
        if os.path.exists(os.path.join(COQ, f + "o")) and f[:-2] not in failed_set:
            discharged += n
        else:
            problems.append("not compiled: " + f)
    if coq.get("hygiene"): problems += ["hygiene: " + h for h in coq["hygiene"]]
    # the translated-source ties this property leans on
    tr = coq.get("translate") or {}
    tie = {"files": TIE_PROPS.get(prop, []), "established": [], "not_established": [], "notes": list(tr.get("notes", []))}
    if coq.get("translator_failed"):
        problems.append("the translator could not read the source: " + coq.get("log", "")[:400])
    if prop in ("C11", "C14", "C15"):
        problems += [x for x in tr.get("problems", []) if x.startswith("the two translators disagree")]
    skipped = {r: why for r, why in (tr.get("report") or {}).get("skipped", [])}
    failed_lemmas = set(l for ls in (tr.get("tie_failed_blocks") or {}).values() for l in ls)
    for tf in tie["files"]:
        tsrc = os.path.join(COQ, tf)
        if not os.path.exists(tsrc): continue
        txt = re.sub(r"\(\*.*?\*\)", "", open(tsrc).read(), flags=re.S)
        lem = re.findall(r"^\s*(?:Lemma|Corollary|Example)\s+((?:tie|agree)_\w+)", txt, re.M)
        n = len(re.findall(r"^\s*(?:Theorem|Lemma|Corollary|Example|Fact|Proposition|Remark)\s", txt, re.M))
        obligations += n
        vo = os.path.join(COQ, tf + "o")
        tpl = open(os.path.join(COQ, tf + ".in")).read() if os.path.exists(os.path.join(COQ, tf + ".in")) else ""
        mine_failed = [l for l in re.findall(r"^\s*(?:Lemma|Corollary|Example)\s+((?:tie|agree)_\w+)", tpl, re.M) if l in failed_lemmas]
        if os.path.exists(vo) and tf[:-2] not in failed_set:
            discharged += n; tie["established"] += lem
        else:
            mine_failed += lem
        if mine_failed:
            obligations += len(mine_failed)
            tie["not_established"] += mine_failed
            if prop in TIE_FALLBACK_EXHAUSTIVE:
                tie["notes"].append("%s: %s no longer check; this property's correspondence is exhaustive over the function's whole domain and is the tie" % (tf, ", ".join(mine_failed)))
            else:
                relevant_l = TIE_LEMMAS.get(prop)
                hit = [l for l in mine_failed if relevant_l is None or l in relevant_l]
                if hit:
                    problems.append("translated-source tie no longer checks: %s (%s)" % (", ".join(hit), tf))
        stem = {"Proofs/SrcTieLevel.v": "level::", "Proofs/SrcTieTables.v": "char_data::", "Proofs/SrcTiePreds.v": ("prepare::", "implicit::", "char_data::is_rtl"),
                "Proofs/SrcTieDir.v": "lib::para_direction", "Proofs/SrcTieBaseDir.v": "lib::get_base_direction_impl",
                "Proofs/SrcTieL1.v": "lib::reorder_levels",
                "Proofs/SrcTiePipe.v": ("lib::assign_levels_to_removed_chars", "implicit::resolve_levels"),
                "Proofs/SrcTieUtf16.v": ("utf16::TextSource", "utf16::is_"), "Proofs/SrcTieUtf16Iter.v": ("utf16::Iterator", "utf16::DoubleEnded"),
                "Proofs/SrcAgreeExplicit.v": "explicit::", "Proofs/SrcTieExplicit.v": "explicit::", "Proofs/SrcTieInitial.v": "lib::compute_initial_info",
                "Proofs/SrcTieRuns.v": "lib::visual_runs_for_line", "Proofs/SrcTieVisual.v": ("lib::reorder_visual", "lib::next_range", "lib::BidiInfo::reorder_visual", "lib::ParagraphBidiInfo::reorder_visual"),
                "Proofs/SrcTieLine.v": "lib::reorder_line",
                "Proofs/SrcTieGlue.v": ("lib::BidiInfo::has_rtl", "lib::ParagraphBidiInfo::has_rtl", "lib::ParagraphBidiInfo::direction")}[tf]
        for r, why in skipped.items():
            if r.startswith(stem):
                tie["notes"].append("not translated: %s (%s); the correspondence run is the only tie for it" % (r, why))
    # Print Assumptions of each property theorem, by a fresh coqc run
    thms = {}
    pad = os.path.join(CACHE, "pa"); os.makedirs(pad, exist_ok=True)
    vf = os.path.join(pad, "PA_%s.v" % prop)
    open(vf, "w").write("".join("From BidiVerif Require %s.\n" % pf[:-2].replace("/", ".") for pf in pfiles) +
                        "".join("Import BidiVerif.%s.\n" % pf[:-2].replace("/", ".") for pf in pfiles) +
                        "".join("Print Assumptions %s.\n" % t for t in idx["theorems"]))
    rc, out, _ = sh("timeout 600 coqc -Q %s BidiVerif %s 2>&1" % (COQ, vf), cwd=pad)
    if rc != 0:
        problems.append("theorem file does not check: " + out[-400:])
    else:
        chunks = re.split(r"(?=Closed under the global context|Axioms:)", out)
        chunks = [c.strip() for c in chunks if c.strip().startswith(("Closed", "Axioms"))]
        for t, c in zip(idx["theorems"], chunks):
            thms[t] = c
            if not c.startswith("Closed"):
                used = set(re.findall(r"^(\S+)\s*:", c, re.M))
                extra = used - ALLOWED_AXIOMS
                if extra: problems.append("theorem %s depends on axioms %s" % (t, sorted(extra)))
        if len(chunks) != len(idx["theorems"]):
            problems.append("could not read Print Assumptions for every theorem")
    return {"ok": not problems, "present": True, "obligations": obligations, "discharged": discharged,
            "theorems": thms, "files": files, "problems": problems, "full": bool(idx.get("full")), "tie": tie,
            "statement": idx.get("statement", ""), "partial_note": idx.get("partial_note", "")}

def coqchk_status(prop, coq):
    """thorough tier: re-check the compiled closure of the property's theorem files with the independent
    checker coqchk and read the axioms it reports.  Cached per (development key, property)."""
    idx = props_index().get(prop)
    if not idx: return {"ran": False}
    d = os.path.join(CACHE, "coqchk"); os.makedirs(d, exist_ok=True)
    cp = os.path.join(d, "%s-%s.json" % (prop, (coq.get("key") or "nokey")[:24]))
    if os.path.exists(cp):
        return json.load(open(cp))
    mods = ["BidiVerif." + f[:-2].replace("/", ".") for f in [idx["file"]] + idx.get("extra_files", []) + TIE_PROPS.get(prop, [])
            if os.path.exists(os.path.join(COQ, f + "o"))]
    t0 = time.time()
    try:
        rc, out, dt = sh("timeout 3000 coqchk -o -silent -Q . BidiVerif %s 2>&1" % " ".join(mods), cwd=COQ, timeout=3100)
    except subprocess.TimeoutExpired:
        rc, out, dt = 124, "timeout", time.time() - t0
    m = re.search(r"\* Axioms:(.*?)\n\s*\n\* Constants", out, re.S)
    axioms = m.group(1).strip() if m else None
    st = {"ran": True, "rc": rc, "modules": mods, "axioms": axioms, "wall_s": dt, "tail": out[-600:] if rc != 0 else ""}
    if rc in (0,): json.dump(st, open(cp, "w"))
    return st

# ---------------------------------------------------------------------------------------------
def known_findings():
    fixed, findings = [], []
    p = os.path.join(ROOT, "known_findings.txt")
    if os.path.exists(p):
        for ln in open(p):
            ln = ln.strip()
            if ln.startswith("fixed:"): fixed.append(ln)
            elif ln.startswith("finding:"): findings.append(ln)
    return fixed, findings

def finding_matches(prop, verdict, case_line):
    """a `finding:` line suppresses exactly the failures it names (by call site / witness shape)"""
    _, findings = known_findings()
    for f in findings:
        m = re.match(r"finding: property=(\S+) (.*)", f)
        if not m or m.group(1) != prop: continue
        rule = m.group(2)
        mm = re.search(r"match=(\S+)", rule)
        if mm and mm.group(1) == "utf16-illformed-reorder-line":
            # D8: utf16 reorder_line on ill-formed input (lone surrogates), only the reordered line differs
            fld = case_line.split("\t")
            if fld[0] == "T" and fld[2] == "16" and set(verdict["diff"]) <= {"bi.ro", "pi.ro"}:
                units = [int(x, 16) for x in fld[4].split(",")] if fld[4] != "-" else []
                if any(0xD800 <= u <= 0xDFFF for u in units):
                    return f
    return None

def write_replay(prop, kind, payload):
    d = os.path.join(ROOT, "replays"); os.makedirs(d, exist_ok=True)
    h = hashlib.sha256(json.dumps(payload, sort_keys=True).encode()).hexdigest()[:12]
    p = os.path.join(d, "%s-%s-%s.json" % (prop, kind, h))
    json.dump(payload, open(p, "w"), indent=1)
    return p

def write_evidence(prop, ev):
    d = os.path.join(ROOT, "evidence"); os.makedirs(d, exist_ok=True)
    json.dump(ev, open(os.path.join(d, prop + ".json"), "w"), indent=1)

LEVELS = {}   # property -> claimed level category, from MANIFEST.json
def claimed_level(prop):
    try:
        m = json.load(open(os.path.join(ROOT, "MANIFEST.json")))
        for c in m["checks"]:
            if c["property_id"] == prop: return c["level_claimed"]["category"]
    except Exception:
        pass
    return "other"

def relevant(prop, v):
    if prop in v["jfail"]: return True
    # properties about a sub-family of inputs only inherit disagreements from that sub-family
    if prop in ("C11", "C12", "C13") and prop not in v["nt"]: return False
    for fld in v["diff"]:
        if prop in FIELD_PROPS.get(fld, []): return True
    if prop == "C07" and v["jfail"] and "C07" in v["jfail"]: return True
    return False

def shrink_text_case(prop, line, hbin):
    """delta-debugging on the characters of a T case: keep removing characters while the judge
    still fails for [prop] on the implementation's output"""
    f = line.split("\t")
    if f[0] != "T" or len(f) < 7 or os.environ.get("VERIF_NOSHRINK"): return line
    tags = f[7] if len(f) > 7 else ""
    if "twin:" in tags or "iso:" in tags: return line
    driver = os.path.join(CACHE, "ocaml", "driver")
    tmp = os.path.join(CACHE, "shrink"); os.makedirs(tmp, exist_ok=True)
    def fails(l):
        cp, ip, vp = (os.path.join(tmp, x) for x in ("c.txt", "i.txt", "v.txt"))
        open(cp, "w").write(l + "\n")
        rc, _, _ = sh("%s run %s > %s && %s corr %s %s %s" % (hbin, cp, ip, driver, cp, ip, vp))
        if rc != 0: return False
        vs = open(vp).read().split("\t")
        return len(vs) > 4 and prop in vs[4].split("=", 1)[1].split(",")
    enc = f[2]
    units = f[4].split(",") if f[4] != "-" else []
    def mk(us):
        # whole text as the only line set: every prefix/suffix would need boundaries; use the full paragraph lines
        g = list(f); g[4] = ",".join(us) if us else "-"; g[6] = "-"
        return "\t".join(g)
    # ddmin on the characters (only for properties about stored results; lines dropped), bounded
    best = line
    budget = [60]
    def try_(us):
        if budget[0] <= 0: return False
        budget[0] -= 1
        return fails(mk(us))
    if prop in ("C01", "C02", "C08", "C10", "C11", "C12", "C16", "C17") and try_(units):
        best = mk(units)
        chunk = max(1, len(units) // 2)
        while chunk >= 1 and budget[0] > 0 and len(units) > 1:
            i, changed = 0, False
            while i < len(units) and budget[0] > 0:
                cand = units[:i] + units[i + chunk:]
                if cand and try_(cand):
                    units = cand; best = mk(cand); changed = True
                else:
                    i += chunk
            if not changed or chunk > 1:
                chunk //= 2
    return best

# ---------------------------------------------------------------------------------------------
RULES = {
    "C01": "paragraph is not pure-LTR (has R/AL/AN/explicit/isolate chars) or direction forced RTL",
    "C02": "text has >= 2 paragraphs, an isolate initiator, or an R/AL character",
    "C03": "case has lines and the text contains a reset candidate (WS/S/B/isolate control/X9-removed)",
    "C04": "level vector (or line) contains an odd level",
    "C05": "some line has at least two distinct L1 levels",
    "C06": "some line has an odd level after L1",
    "C07": "non-empty text (every API call of the case is a no-panic trial)",
    "C08": "text contains a multi-unit character",
    "C09": "UTF-16 case with a supplementary character or a lone surrogate, paired with its UTF-8 twin",
    "C10": "text has >= 2 paragraphs",
    "C11": "input reaches a limit: an X1-X8 overflow count becomes non-zero, or >= 63 opening brackets",
    "C12": "case uses a custom data source",
    "C13": "pair of texts differing only inside a matched isolate",
    "C16": "text has isolate controls or a paragraph separator",
    "C17": "paragraph not pure-LTR or direction forced",
    "C18": "units contain a surrogate (iterator programs: both next and next_back used); or non-ASCII UTF-8",
}
KINDS = {"C04": ("T", "V"), "C18": ("I", "S"), "C07": ("T", "V", "I", "S")}

def infra_violation(prop, what, detail, tier, seed, t0):
    rp = write_replay(prop, "infra", {"property": prop, "broken": what, "detail": detail[-3000:],
                                      "how_to_rerun": "cd /verif && ./check %s" % prop})
    write_evidence(prop, {"property_id": prop, "tier": tier, "seed": seed, "level": "other",
                          "coverage": {"explanation": "check could not complete: %s" % what, "evaluations": 1, "distinct_nontrivial": 2},
                          "wall_s": time.time() - t0, "violations": 1})
    print("VIOLATION property=%s replay=%s no-failing-input-found" % (prop, rp))
    return 1

def decide_from_corr(prop, tier, seed):
    t0 = time.time()
    with Lock():
        coq = stage_coq()
        drv = stage_driver()
        har = stage_harness()
        if not drv["ok"]:
            return infra_violation(prop, "model extraction / driver build", drv.get("log", ""), tier, seed, t0)
        if not har["ok"]:
            return infra_violation(prop, "harness does not build against /repo (public API changed?)", har["log"], tier, seed, t0)
        d = stage_corr(seed, tier, har["bin"])
        ps = proof_status(prop, coq)
        chk = coqchk_status(prop, coq) if tier == "thorough" else {"ran": False}
    if chk.get("ran"):
        if chk["rc"] == 0 and chk["axioms"] not in ("<none>",):
            ps["problems"].append("coqchk reports axioms: %s" % chk["axioms"]); ps["ok"] = False
        elif chk["rc"] not in (0, 124):
            ps["problems"].append("coqchk failed: " + chk.get("tail", "")[-200:]); ps["ok"] = False
    meta = json.load(open(os.path.join(d, "meta.json")))
    if meta.get("errors"):
        # an incomplete run decides nothing; do not keep it in the cache
        shutil.rmtree(d, ignore_errors=True)
        return infra_violation(prop, "the correspondence run did not complete", "; ".join(meta["errors"]), tier, seed, t0)
    verdicts = load_verdicts(d)
    kinds = KINDS.get(prop, ("T",))
    mine = [v for v in verdicts if v["kind"] in kinds]
    cl = case_lines(d)
    nontriv = set()
    for v in mine:
        if prop in v["nt"]:
            nontriv.add("\t".join(cl[v["id"]].split("\t")[2:7]))
    bad = [v for v in verdicts if relevant(prop, v)]
    judge_fail = [v for v in bad if prop in v["jfail"]]
    diff_only = [v for v in bad if prop not in v["jfail"]]
    known_lines, violations = [], []
    for v in judge_fail + diff_only:
        k = finding_matches(prop, v, cl[v["id"]])
        if k: known_lines.append((k, v))
        else: violations.append(v)
    jf_viol = [v for v in violations if prop in v["jfail"]]
    ev_level = claimed_level(prop)
    cov = {
        "evaluations": len(mine), "distinct_nontrivial": len(nontriv), "rule": RULES.get(prop, ""),
        "samples": [cl[v["id"]] for v in mine if prop in v["nt"]][:3] or [cl[v["id"]] for v in mine][:3],
        "traces_validated_against_impl": len(mine),
        "disagreements_checked": len(bad),
        # model-internal differentials (length independence; stage-by-stage agreement with Spec.v): testing of the
        # pinned statements, independent of the implementation
        "model_internal_disagreements": sum(1 for v in mine if any(x.startswith("model.") for x in v["diff"])),
        "generator_distribution": meta.get("gen_stats", {}),
        "obligations": ps["obligations"], "discharged": ps["discharged"],
        "checker_cmd": "cd /verif/coq && coq_makefile -f _CoqProject -o Makefile && make (coqc 8.16.1, full .vo build); Print Assumptions per theorem",
        "trusted_base": ["Coq 8.16.1 kernel + vm_compute", "rs2v (syn-based translator of tables, constants and small functions; cross-checked by tools/gen_tables.py)", "Extraction (ExtrOcamlBasic only) + ocaml/driver.ml glue",
                         "harness/src (Rust driver of the real crate)", "Spec.v as transcription of UAX#9"] +
                        ["%s: %s" % (t, a.replace("\n", " ")) for t, a in ps["theorems"].items()],
        "explanation": ("Theorems: %s. %s Correspondence: the real crate and the extracted Coq model ran %d cases (seed %d, tier %s) and were compared on the fields this property depends on; the extracted judge %s_judge was applied to the real crate's outputs."
                        % (", ".join(ps["theorems"].keys()) or "none yet", ps.get("partial_note", ""), len(mine), seed, tier, prop)),
        "proof_problems": ps["problems"],
        "theorem_statement": ps.get("statement", ""),
        "source_translation": ps.get("tie", {}),
        "coqchk": {k: chk.get(k) for k in ("ran", "rc", "axioms", "wall_s", "modules")},
    }
    rc = 0
    if violations or not ps["ok"]:
        rc = 1
        if jf_viol:
            v = jf_viol[0]
            line = cl[v["id"]]
            try:
                line_s = shrink_text_case(prop, line, har["bin"])
            except Exception:
                line_s = line
            im = impl_lines(d, [v["id"]])
            rp = write_replay(prop, "input", {"property": prop, "case": line_s, "original_case": line, "implementation_output": im.get(v["id"], ""),
                                              "judge": prop + "_judge = false on the implementation's output",
                                              "fields_differing_from_model": v["diff"], "seed": seed, "tier": tier,
                                              "failing_cases_in_run": len(jf_viol),
                                              "how_to_rerun": "cd /verif && ./check replay <this file>"})
            print("VIOLATION property=%s replay=%s" % (prop, rp))
        else:
            # something broke but no judged failure on this case file: search more seeds
            found = None
            if violations:
                for s2 in range(seed + 1, seed + (1 if tier == "quick" else 4)):
                    with Lock():
                        d2 = stage_corr(s2, tier, har["bin"])
                    vs2 = [v for v in load_verdicts(d2) if prop in v["jfail"] and not finding_matches(prop, v, case_lines(d2)[v["id"]])]
                    if vs2:
                        found = (d2, vs2[0], s2); break
            if found:
                d2, v, s2 = found
                rp = write_replay(prop, "input", {"property": prop, "case": case_lines(d2)[v["id"]], "implementation_output": impl_lines(d2, [v["id"]]).get(v["id"], ""),
                                                  "judge": prop + "_judge = false on the implementation's output", "seed": s2, "tier": tier,
                                                  "how_to_rerun": "cd /verif && ./check replay <this file>"})
                print("VIOLATION property=%s replay=%s" % (prop, rp))
            else:
                what = []
                if not ps["ok"]: what.append("proof obligations no longer check: " + "; ".join(ps["problems"]))
                if violations:
                    v = violations[0]
                    what.append("correspondence broken: model and implementation disagree on fields %s (first case: %s)" % (v["diff"], cl[v["id"]]))
                rp = write_replay(prop, "broken", {"property": prop, "broken": what,
                                                   "cases_disagreeing": [cl[v["id"]] for v in violations[:20]],
                                                   "how_to_rerun": "cd /verif && ./check %s" % prop})
                print("VIOLATION property=%s replay=%s no-failing-input-found" % (prop, rp))
    for k, v in known_lines[:50]:
        pass
    seen_k = set()
    for k, v in known_lines:
        if k not in seen_k:
            seen_k.add(k)
            print("KNOWN-FINDING: property=%s %s (%d cases in this run)" % (prop, k.split(" ", 2)[2], sum(1 for kk, _ in known_lines if kk == k)))
    cov["known_findings_seen"] = len(known_lines)
    write_evidence(prop, {"property_id": prop, "tier": tier, "seed": seed, "level": ev_level, "coverage": cov,
                          "assumptions": ["see coverage.trusted_base"], "wall_s": time.time() - t0,
                          "violations": len(violations) + (0 if ps["ok"] else 1)})
    return rc

# ---------------------------------------------------------------------------------------------
# exhaustive dumps: C14 / C15 (tables), C19 (Level)
def diff_dumps(a, b, limit=20):
    la, lb = a.splitlines(), b.splitlines()
    out = []
    sa, sb = set(la), set(lb)
    for x in la:
        if x not in sb: out.append("impl-only: " + x[:300])
        if len(out) >= limit: break
    for x in lb:
        if x not in sa: out.append("model-only: " + x[:300])
        if len(out) >= 2 * limit: break
    return out

def decide_dump(prop, tier, seed, mode, keep, what):
    """[mode] = harness/driver subcommand; [keep] filters the dump lines this property is about"""
    t0 = time.time()
    with Lock():
        coq = stage_coq(); drv = stage_driver(); har = stage_harness()
        if not drv["ok"]: return infra_violation(prop, "driver build", drv.get("log", ""), tier, seed, t0)
        if not har["ok"]: return infra_violation(prop, "harness build", har["log"], tier, seed, t0)
        hars = [("debug", har)]
        if prop == "C19":
            hr = stage_harness(release=True)
            if not hr["ok"]: return infra_violation(prop, "harness release build", hr["log"], tier, seed, t0)
            hars.append(("release", hr))
        ps = proof_status(prop, coq)
        chk = coqchk_status(prop, coq) if tier == "thorough" else {"ran": False}
    if chk.get("ran"):
        if chk["rc"] == 0 and chk["axioms"] not in ("<none>",):
            ps["problems"].append("coqchk reports axioms: %s" % chk["axioms"]); ps["ok"] = False
        elif chk["rc"] not in (0, 124):
            ps["problems"].append("coqchk failed: " + chk.get("tail", "")[-200:]); ps["ok"] = False
    rc, model, _ = sh([os.path.join(CACHE, "ocaml", "driver"), mode])
    model = "\n".join(l for l in model.splitlines() if keep(l))
    problems, n_impl = [], 0
    for name, h in hars:
        rc, impl, _ = sh([h["bin"], mode])
        impl = "\n".join(l for l in impl.splitlines() if keep(l))
        n_impl = len(impl.splitlines())
        if impl != model:
            problems += ["%s build: %s" % (name, x) for x in diff_dumps(impl, model)]
    extra = []
    if prop in ("C14", "C15"):
        extra = reference_check(prop, model)
    if prop == "C15":
        for h_name, h in hars:
            rc_i, impl_i, _ = sh([h["bin"], mode])
            for l in impl_i.splitlines():
                f = l.split()
                if f and f[0] == "BC" and (f[2] != "ON" or f[3] != "ON"):
                    extra.append("bracket U+%s has Bidi_Class %s / %s (must be ON)" % (f[1].upper(), f[2], f[3]))
    viol = bool(problems or extra or not ps["ok"])
    cov = {"evaluations": n_impl, "distinct_nontrivial": n_impl, "exhaustive": True,
           "rule": what, "samples": model.splitlines()[:3] + model.splitlines()[-2:],
           "traces_validated_against_impl": n_impl * len(hars),
           "obligations": ps["obligations"], "discharged": ps["discharged"],
           "checker_cmd": "cd /verif/coq && make (coqc 8.16.1, full .vo build); Print Assumptions per theorem",
           "trusted_base": ["Coq 8.16.1 kernel + vm_compute", "rs2v (syn-based translator of tables, constants and small functions; cross-checked by tools/gen_tables.py)", "Extraction (ExtrOcamlBasic) + ocaml/driver.ml",
                            "harness (exhaustive dump through the public API)"] + ["%s: %s" % (t, a.replace("\n", " ")) for t, a in ps["theorems"].items()],
           "explanation": "Exhaustive tie: %s. Theorems: %s. %s" % (what, ", ".join(ps["theorems"].keys()) or "none yet", ps.get("partial_note", "")),
           "proof_problems": ps["problems"], "theorem_statement": ps.get("statement", ""),
           "source_translation": ps.get("tie", {}),
           "coqchk": {k: chk.get(k) for k in ("ran", "rc", "axioms", "wall_s", "modules")}}
    if viol:
        concrete = problems + extra
        rp = write_replay(prop, "input" if concrete else "broken",
                          {"property": prop, "disagreements": concrete[:40], "proof_problems": ps["problems"],
                           "how_to_rerun": "cd /verif && ./check %s  (harness `%s` vs driver `%s`)" % (prop, mode, mode)})
        print("VIOLATION property=%s replay=%s%s" % (prop, rp, "" if concrete else " no-failing-input-found"))
    write_evidence(prop, {"property_id": prop, "tier": tier, "seed": seed, "level": claimed_level(prop), "coverage": cov,
                          "wall_s": time.time() - t0, "violations": len(problems) + len(extra) + (0 if ps["ok"] else 1)})
    return 1 if viol else 0

def reference_check(prop, model_dump):
    """compare the (model == implementation) dump with the committed UCD reference, if present"""
    ref = os.path.join(ROOT, "ref", "bidi_class_16.txt" if prop == "C14" else "bidi_brackets_16.txt")
    if not os.path.exists(ref): return []
    want = [l.strip() for l in open(ref) if l.strip() and not l.startswith("#")]
    tag = "C " if prop == "C14" else "B "
    got = [l for l in model_dump.splitlines() if l.startswith(tag)]
    if got == want: return []
    return ["reference: " + x for x in diff_dumps("\n".join(got), "\n".join(want))]

# ---------------------------------------------------------------------------------------------
# C20: feature sets
FEATURE_SETS = [("default", "ub-std,ub-hardcoded"), ("smallvec", "ub-std,ub-hardcoded,ub-smallvec"),
                ("serde", "ub-std,ub-hardcoded,ub-serde"), ("smallvec+serde", "ub-std,ub-hardcoded,ub-smallvec,ub-serde"),
                ("no-default+hardcoded-data", "ub-hardcoded")]

def decide_features(prop, tier, seed):
    t0 = time.time()
    with Lock():
        coq = stage_coq(); drv = stage_driver(); har = stage_harness()
        if not har["ok"]: return infra_violation(prop, "harness build", har["log"], tier, seed, t0)
        d = stage_corr(seed, tier, har["bin"])
        builds = {}
        for name, feats in FEATURE_SETS:
            builds[name] = stage_harness(features=feats)
    base_out = None
    problems, digests, n = [], {}, 0
    cases = os.path.join(d, "cases.txt")
    # the digest corpus: every generated text case except the big deep ones beyond a size cap is kept (all of them)
    for name, feats in FEATURE_SETS:
        b = builds[name]
        if not b["ok"]:
            problems.append("feature set %s does not build: %s" % (name, b["log"][-300:])); continue
        outp = os.path.join(d, "feat_%s.txt" % re.sub(r"\W+", "_", name))
        with open(outp, "w") as f:
            rc = subprocess.run([b["bin"], "run", cases], stdout=f, stderr=subprocess.DEVNULL).returncode
        if rc != 0: problems.append("feature set %s: harness run failed" % name); continue
        data = open(outp, "rb").read()
        digests[name] = hashlib.sha256(data).hexdigest()
        if base_out is None:
            base_out = data.decode().splitlines(); n = len(base_out)
        else:
            cur = data.decode().splitlines()
            if cur != base_out:
                for x, y in zip(base_out, cur):
                    if x != y:
                        cid = x.split("\t")[1]
                        problems.append("feature set %s differs from default on case %s" % (name, case_lines(d).get(cid, cid))); break
        if name != "default": os.remove(outp)
        # the exhaustive dumps (class of every scalar value in code-point order, brackets, Level operations) must not
        # depend on the feature set either
        for mode in ("tables", "levels"):
            rc_t, dump, _ = sh([b["bin"], mode])
            dg = hashlib.sha256(dump.encode()).hexdigest()
            digests["%s/%s" % (name, mode)] = dg
            if name == "default":
                base_dumps = dict(globals().get("_c20_base", {})); base_dumps[mode] = dump; globals()["_c20_base"] = base_dumps
            elif dump != globals()["_c20_base"].get(mode):
                a = globals()["_c20_base"].get(mode, "").splitlines(); bl = dump.splitlines()
                first = next((x + "  |  " + y for x, y in zip(a, bl) if x != y), "length differs")
                problems.append("feature set %s: `%s` dump differs from the default build: %s" % (name, mode, first[:200]))
    # default build must itself correspond to the model (shared correspondence run)
    verdicts = load_verdicts(d)
    ndiff = sum(1 for v in verdicts if v["diff"])
    # serde round trip
    serde_ok = None
    sb = builds.get("serde")
    if sb and sb["ok"]:
        rc, out, _ = sh([sb["bin"], "serde"])
        rows = [l.split("\t") for l in out.splitlines() if l.startswith("serde\t")]
        serde_ok = len(rows) == 127 and all(r[3] == "1" and r[2] == r[1] for r in rows)
        if not serde_ok: problems.append("serde round trip failed: " + out[:300])
    viol = bool(problems)
    if viol:
        rp = write_replay(prop, "input", {"property": prop, "problems": problems, "digests": digests,
                                          "how_to_rerun": "cd /verif && ./check C20"})
        print("VIOLATION property=%s replay=%s" % (prop, rp))
    cl = case_lines(d)
    cov = {"evaluations": n * len(FEATURE_SETS), "distinct_nontrivial": len(set("\t".join(l.split("\t")[2:7]) for l in cl.values())),
           "rule": "every case of the shared case file (all families), run under each of the 5 feature sets; outputs compared line by line with the default build",
           "samples": list(cl.values())[:3], "digests": digests, "serde_roundtrip_all_127_levels": serde_ok,
           "model_vs_default_disagreements": ndiff,
           "explanation": "No theorem can quantify over cargo features: the Coq model has one container type (list) and no features. The claim is decided by correspondence: each feature set's build runs the same case file and must print byte-identical results to the default build, which in turn is compared with the extracted Coq model (shared correspondence run). Serde: Level round-trips through serde_json for all 127 levels."}
    write_evidence(prop, {"property_id": prop, "tier": tier, "seed": seed, "level": claimed_level(prop), "coverage": cov,
                          "wall_s": time.time() - t0, "violations": len(problems)})
    return 1 if viol else 0

# ---------------------------------------------------------------------------------------------
def do_replay(path):
    r = json.load(open(path))
    with Lock():
        stage_coq(); stage_driver(); har = stage_harness()
    if "case" not in r:
        print(json.dumps(r, indent=1)); return 0
    tmp = os.path.join(CACHE, "replay"); os.makedirs(tmp, exist_ok=True)
    cp, ip, vp = (os.path.join(tmp, x) for x in ("c.txt", "i.txt", "v.txt"))
    open(cp, "w").write(r["case"] + "\n")
    rc, out, _ = sh("%s run %s > %s && %s corr %s %s %s" % (har["bin"], cp, ip, os.path.join(CACHE, "ocaml", "driver"), cp, ip, vp))
    print("case:    " + r["case"]); print("impl:    " + open(ip).read().strip()); print("verdict: " + open(vp).read().strip())
    return 1 if r["property"] in open(vp).read() else 0

def main():
    args = sys.argv[1:]
    if not args:
        print(__doc__); return 2
    tier = os.environ.get("VERIF_TIER", "quick")
    if "--tier" in args:
        tier = args[args.index("--tier") + 1]
    seed = int(os.environ.get("VERIF_SEED", "20260929")) % (1 << 62)
    if args[0] == "setup":
        with Lock():
            c = stage_coq(); d = stage_driver(); h = stage_harness()
        print("coq ok=%s failed=%s hygiene=%s; driver ok=%s; harness ok=%s" % (c["ok"], c.get("failed"), c.get("hygiene"), d["ok"], h["ok"]))
        if not (d["ok"] and h["ok"]):
            print(c.get("log_tail", "")[-2000:]); print(d.get("log", "")); print(h.get("log", ""))
        return 0 if (d["ok"] and h["ok"]) else 1
    if args[0] == "replay":
        return do_replay(args[1])
    if args[0] == "check":
        prop = args[1]
        if prop == "C14":
            return decide_dump(prop, tier, seed, "tables", lambda l: l.startswith(("C ", "F ", "version", "MISMATCH", "MODEL-")), "bidi_class of every Unicode scalar value (1,112,064), run-length encoded, implementation vs model vs reference")
        if prop == "C15":
            return decide_dump(prop, tier, seed, "tables", lambda l: l.startswith(("B ", "BC ", "MISMATCH")), "bidi_matched_opening_bracket of every scalar value (all with an answer listed; all others None) and the Bidi_Class of every bracket through both public accessors (must be ON)")
        if prop == "C19":
            return decide_dump(prop, tier, seed, "levels", lambda l: True, "every Level operation on its whole domain (256 constructor arguments, 127 levels x 256 amounts per mutator, 127 levels per helper), debug and release builds")
        if prop == "C20":
            return decide_features(prop, tier, seed)
        return decide_from_corr(prop, tier, seed)
    print(__doc__); return 2

if __name__ == "__main__":
    sys.exit(main())
