#!/usr/bin/env python3
"""Writes corpus/witnesses.txt: the minimised witnesses of the defects found so far (D1-D8), the
crate's own test strings and UAX #9 examples.  The corpus runs first in every correspondence run, so
these inputs are checked deterministically whatever the seed.  Output is committed."""
import os
B = {0xA, 0xD, 0x1C, 0x1D, 0x1E, 0x85, 0x2029}
def l8(c): return 1 if c < 0x80 else 2 if c < 0x800 else 3 if c < 0x10000 else 4
def l16(c): return 1 if c < 0x10000 else 2
out = []
nid = [1]
def lines_all(cps, enc, maxchars=7):
    ln = l8 if enc == 8 else l16
    starts = [0]
    for c in cps: starts.append(starts[-1] + ln(c))
    paras, cur = [], [0]
    for i, c in enumerate(cps):
        cur.append(i + 1)
        if c in B: paras.append(cur); cur = [i + 1]
    if len(cur) > 1: paras.append(cur)
    res = []
    for p in paras:
        k = len(p) - 1
        if k <= maxchars:
            res += [(p[i], p[j]) for i in range(k) for j in range(i + 1, k + 1)]
        else:
            res += [(p[0], p[k]), (p[0], p[k // 2]), (p[k // 2], p[k]), (p[k - 1], p[k])]
    return [(starts[a], starts[b]) for a, b in res]
def units16(cps):
    u = []
    for c in cps:
        if c < 0x10000: u.append(c)
        else: u += [0xD800 + ((c - 0x10000) >> 10), 0xDC00 + ((c - 0x10000) & 0x3FF)]
    return u
def T(cps, dirs="a01", encs=(8, 16), lines=None, tag="G0"):
    for d in dirs:
        id16 = None
        for enc in sorted(encs, reverse=True):   # 16 first, then its twin
            ls = lines[enc] if lines else lines_all(cps, enc)
            us = cps if enc == 8 else units16(cps)
            t = tag
            if enc == 8 and id16 is not None: t += " twin:%d" % id16
            out.append("T\t%d\t%d\t%s\t%s\t-\t%s\t%s" % (nid[0], enc, d, ",".join("%x" % u for u in us) or "-",
                       ",".join("%d-%d" % l for l in ls) or "-", t))
            if enc == 16: id16 = nid[0]
            nid[0] += 1
def s(x): return [ord(c) for c in x]
# D1: multi-unit X9-removed character in L1
T(s("א\t​א"), tag="G0 D1")
T(s("א \U000e0001א"), tag="G0 D1")
# D2: a line lying entirely at level 126
deep = [0x202B if i % 2 == 0 else 0x202A for i in range(125)] + [0x61]
T(deep, dirs="a", encs=(8,), lines={8: [(375, 376), (0, 376), (372, 376)]}, tag="G0 D2")
T(deep + [0x31, 0x20], dirs="a0", encs=(8,), lines={8: [(375, 377), (375, 376), (376, 378)]}, tag="G0 D2")
T(deep, dirs="a", encs=(16,), lines={16: [(125, 126), (0, 126)], 8: [(375, 376), (0, 376)]}, tag="G0 D2")
# D3: early exit on pre-L1 levels
T(s("א a b"), tag="G0 D3")
T(s("a b"), dirs="1", tag="G0 D3")
# D4: has_rtl of the single-paragraph API
T(s("abc "), tag="G0 D4"); T(s("abc"), tag="G0 D4"); T(s(" \t"), tag="G0 D4"); T(s("\n"), tag="G0 D4")
# D6: backwards search across an isolate
T([0x5D0, 0x61, 0x2066, 0x5B, 0x2069, 0x28, 0x61, 0x29], tag="G0 D6")
T([0x5D0, 0x61, 0x62, 0x2067, 0x5D0, 0x2069, 0x28, 0x61, 0x29, 0x5D0], tag="G0 D6")
# D7: more than 63 pending brackets across level runs
T([0x5D0] + [0x28] * 64 + [0x2066, 0x61, 0x2069, 0x5D0, 0x29, 0x61], dirs="0a", encs=(8,), tag="G0 D7")
T([0x5D0] + [0x28] * 63 + [0x2066, 0x61, 0x2069, 0x5D0, 0x29, 0x61], dirs="0", encs=(8,), tag="G0 D7")
T([0x61] + [0x28] * 70 + [0x5D0] + [0x29] * 70, dirs="01", encs=(8,), tag="G0 D7")
# the crate's own test strings
for x in ["abc123", "abc אבג", "אבג abc", "abc אבג", "a⁧b⁩c",
          "⁧א⁦a⁩⁩", "א(ב)ג", "(א)a", "a(b)א", "1 - 2 א", "ا١ 1,2 $5",
          "א̀(̀a)̀", "a‫b‬c", "‮abc‬", "x ⁨א⁩ y", "⁨a⁩א",
          "A\U00010401 \U00010800", "\n\n", "", "a\r\nb", "‪" * 3 + "א" + "‬" * 5, "א‏‎ a", "[a](א)<b>",
          "א \U000e0001 א", "car is THE CAR in arabic".replace("THE CAR", "الس"), "he said “⁧car MEANS CAR⁩”"]:
    T(s(x))
# D8 (ill-formed UTF-16 in reorder_line) and other lone-surrogate arrangements
def T16(units, d, tag):
    # twin: lossy decoding
    dec, i = [], 0
    while i < len(units):
        u = units[i]
        if 0xD800 <= u < 0xDC00 and i + 1 < len(units) and 0xDC00 <= units[i + 1] < 0xE000:
            dec.append((0x10000 + ((u - 0xD800) << 10) + (units[i + 1] - 0xDC00), 2)); i += 2
        elif 0xD800 <= u < 0xE000: dec.append((0xFFFD, 1)); i += 1
        else: dec.append((u, 1)); i += 1
    cps = [c for c, _ in dec]
    st16, st8 = [0], [0]
    for c, l in dec: st16.append(st16[-1] + l); st8.append(st8[-1] + l8(c))
    k = len(dec)
    cl = [(0, k)] + [(i, j) for i in range(k) for j in range(i + 1, k + 1) if (i, j) != (0, k)][:12]
    out.append("T\t%d\t16\t%s\t%s\t-\t%s\t%s" % (nid[0], d, ",".join("%x" % u for u in units), ",".join("%d-%d" % (st16[a], st16[b]) for a, b in cl), tag))
    out.append("T\t%d\t8\t%s\t%s\t-\t%s\t%s twin:%d" % (nid[0] + 1, d, ",".join("%x" % u for u in cps), ",".join("%d-%d" % (st8[a], st8[b]) for a, b in cl), tag, nid[0]))
    nid[0] += 2
T16([0x20, 0x202A, 0x24, 0xD800, 0x5D0, 0x202B, 0x2068, 0xDFFF], "0", "G0 D8")
T16([0xD800, 0x5D0, 0xDC00], "a", "G0 D8")
T16([0x61, 0xDC00, 0xD800, 0x5D0], "1", "G0")
T16([0x41, 0xD801, 0xDC01, 0x20, 0xD800, 0x20, 0xDFFF, 0x20, 0xDC00, 0xD800], "a", "G0")
# D5: iterator interleavings
for units, ops in [("41,42", "bff"), ("41,42", "fbf"), ("41,d801,dc01", "bff"), ("d801,dc01", "bf"), ("d801,dc01,41", "fbb"), ("dc01,d801", "bbf")]:
    out.append("I\t%d\t%s\t%s" % (nid[0], units, ops)); nid[0] += 1
out.append("S\t%d\t16\t41,d801,dc01,20,d800,20,dfff,20,dc00,d800" % nid[0]); nid[0] += 1
out.append("V\t%d\t126" % nid[0]); nid[0] += 1
out.append("V\t%d\t126,126,126" % nid[0]); nid[0] += 1
out.append("V\t%d\t0,0,0,1,1,1,2,2" % nid[0]); nid[0] += 1
open(os.path.join(os.path.dirname(__file__), "..", "corpus", "witnesses.txt"), "w").write(
    "# generated by tools/mk_corpus.py (committed); ids 1.. ; runs first in every correspondence run\n" + "\n".join(out) + "\n")
print(len(out), "corpus cases")
