#!/usr/bin/env python3
"""Writes coq/Props/index.json: for each property, the Props files and theorem names whose build and
Print Assumptions the check verifies, whether the property's FULL statement is closed, and the text
that goes into MANIFEST.json / the evidence.  Edit the table below when a theorem closes; then run
tools/mk_manifest.py."""
import json, os
ROOT = os.path.dirname(os.path.dirname(os.path.abspath(__file__)))
P = os.path.join(ROOT, "coq", "Props")
def have(f): return os.path.exists(os.path.join(ROOT, "coq", f))

FINAL = "Props/Finals.v"
I = {}
def add(pid, files, theorems, full, statement, note=""):
    files = [f for f in files if have(f)]
    I[pid] = {"file": files[0], "extra_files": files[1:], "theorems": theorems, "full": full,
              "statement": statement, "partial_note": note}

cs_done = all(have(f) for f in ["Props/CSRuns.v", "Props/CSSequences.v", "Props/CSWeak.v", "Props/CSNeutral.v",
                                "Props/CSLevels.v", "Props/CSShortcut.v", "Props/CSFlags.v", "Props/C01.v"])
c01_th = ["explicit_agrees", "explicit_invariants", "cs_runs", "cs_sequences_fast", "cs_weak", "cs_levels", "cs_flags", "cs_shortcut"]
c01_files = ["Props/ExplicitSpec.v", "Props/ExplicitInv.v", "Props/CSRuns.v", "Props/CSSequencesFast.v", "Props/CSWeak.v",
             "Props/CSLevels.v", "Props/CSFlags.v", "Props/CSShortcut.v"]
if have("Props/CSNeutral.v"): c01_files.append("Props/CSNeutral.v"); c01_th.append("cs_neutral")
if have("Props/CSSequences.v"): c01_files.append("Props/CSSequences.v"); c01_th.append("cs_sequences")
if have("Props/CSAssemble.v"): c01_files.append("Props/CSAssemble.v"); c01_th += ["cs_para_assembly", "c01_char_assembly", "c01_final_assembly"]
if have("Props/C01.v"): c01_files.insert(0, "Props/C01.v"); c01_th.insert(0, "c01_final")
add("C01", c01_files, c01_th, cs_done,
    "C01_final (Stmts5.v): for every valid case (UTF-8 or UTF-16 text, any data source, direction auto/LTR/RTL) the judge C01_judge holds on the model's observation: levels at character starts equal Spec.v's resolve_paragraph (UAX #9 X1-X10, W1-W7, N0-N2, I1-I2), X9-removed characters carry the preceding level or the paragraph level.",
    "Proved for all inputs, stage by stage at character level and lifted to every encoding by length independence: X1-X8 (explicit_agrees), BD7 level runs (cs_runs), BD13/X10 on paragraphs without isolate initiators (cs_sequences_fast), W1-W7 (cs_weak: the fused single pass with retained BNs = the seven passes), I1/I2 and removed characters (cs_levels), the pure-LTR shortcut (cs_shortcut), the flags (cs_flags)"
    + (", BD16/N0/N1/N2 (cs_neutral)" if have("Props/CSNeutral.v") else "")
    + (", BD13/X10 in general (cs_sequences)" if have("Props/CSSequences.v") else "")
    + ". Not yet theorems: " + ", ".join(x for x, f in [("BD16/N0-N2 against Spec.v", "Props/CSNeutral.v"), ("the general BD13 path (stack of pending sequences vs matching PDI)", "Props/CSSequences.v"), ("the assembly into C01_final", "Props/C01.v")] if not have(f))
    + "; these are decided by C01_judge on the real crate's outputs and tested stage by stage by StageRel.stage_check on every generated case.")
add("C02", ["Props/C02.v", "Props/TextView.v", FINAL], ["C02_paragraphs_levels_fsi", "view_of_ok", "c02_final"], True,
    "C02_statement (Stmts2.v) and C02_final (Stmts5.v): for every encoding, data source, text and direction compute_initial_info never panics, classes = per-unit expansion of the classes with FSI resolved per X5c, paragraphs = the P1 split with levels per P2/P3 (FSI-class characters as long as U+2068: the data-source proviso); and the extracted judge C02_judge holds on the model's observation of every valid case (InitialInfo, BidiInfo, and ParagraphBidiInfo on single-paragraph text).")
add("C03", ["Props/C03.v", "Props/CLLevels.v", "Props/LLLevels.v", FINAL], ["C03_reorder_levels_is_L1", "cl_reordered_levels", "ll_reordered_levels", "c03_final"], True,
    "C03_final (Stmts5.v) with CL_reordered_levels / LL_reordered_levels: for every valid case and every line of whole characters, reordered_levels returns the stored levels with the line's slice replaced by rule L1 (Spec.l1) expanded to code units, everything outside the line unchanged, and reordered_levels_per_char is that vector at character starts; both analysis types, both encodings.")
add("C04", ["Props/C04.v", FINAL], ["C04_reorder_visual", "c04_final"], True,
    "C04_statement (Stmts.v): for every level vector with entries <= 126, reorder_visual returns Ok out with length out = length lv, Permutation out (seq 0 n), out = Spec.l2 lv, and out = seq 0 n when no level is odd; C04_final: the judge holds on every line of every valid case.")
add("C05", ["Props/C05.v", "Props/LLRuns.v", FINAL], ["C05_visual_runs", "ll_visual_runs", "c05_final"], True,
    "C05_statement (Stmts.v) and C05_final: for every level vector (<= 126) and line a < b <= length, visual_runs returns the levels unchanged and runs that tile the line, are single-level and maximal, whose visual unit order equals Spec.l2 of the line's levels, and deprecated::visual_runs returns the same runs; on every valid case the levels fed in are the L1 levels (C03).")
add("C06", ["Props/CLReorderLine.v", "Props/LLReorderLine.v", FINAL], ["cl_reorder_line", "ll_reorder_line2", "ll_reorder_line", "c06_final"], True,
    "CL_reorder_line (Stmts5.v), LL_reorder_line2 (Stmts6.v), C06_final: for every valid case and line, reorder_line returns exactly the line's characters permuted by L2 of the per-character L1 levels (the line itself when no level is odd after L1); in any encoding the result decodes to the character-level result and, for well-formed text, is exactly its encoding.")
add("C07", ["Props/LengthIndependence.v", "Props/Totality.v", FINAL, "Props/C18.v", "Props/C19.v"], ["C07_C08_constructors_thm", "constructors_total_char", "c07_final", "C18_utf16_text_access", "C19_level_invariants"], True,
    "C07_final (Stmts5.v): for every valid case (valid UTF-8 or ANY list of 16-bit units, any data source with the FSI proviso, direction auto/0/1, lines of whole characters) every field of the model's observation is Ok: constructors, has_rtl, direction, level_at, reordered_levels(_per_char), visual_runs, deprecated::visual_runs, reorder_line, reorder_visual, get_base_direction(_full), and BidiInfo of every paragraph's substring. The model represents every Rust panic site (index, slice, unwrap/expect, assert) as a Panic value.")
add("C08", ["Props/LengthIndependence.v", FINAL], ["C07_C08_constructors_thm", "li_bidi_info", "li_para_bidi_info", "c08_final"], True,
    "C07_C08_constructors (Stmts4.v) and C08_final: class and level vectors have one entry per code unit, all units of a character carry the same class and level (stored analysis and line levels), paragraph level <= level <= 126, the per-character vector has one entry per character — because the analysis in any encoding is the per-unit expansion of the character-level analysis (length independence).")
c09 = have("Props/C09.v")
add("C09", (["Props/C09.v"] if c09 else []) + ["Props/LengthIndependence.v", "Props/C18.v", "Props/LLLevels.v", "Props/LLRuns.v", "Props/LLReorderLine.v"],
    (["c09_final"] if c09 else []) + ["li_bidi_info", "li_para_bidi_info", "C18_utf16_text_access", "ll_reordered_levels", "ll_visual_runs", "ll_reorder_line2"], c09,
    "C09_final (Stmts5.v): for a UTF-16 case and the UTF-8 case of the same characters (lone surrogates read as U+FFFD) the paired judge C09_judge holds on the model's observations: same classes, levels, paragraphs, summary queries, line levels, runs, base direction character for character, and the reordered line decodes to the UTF-8 result (exactly its UTF-16 encoding for well-formed text).",
    "Proved: both encodings' analyses and line queries are per-unit expansions of ONE character-level analysis (li_bidi_info, li_para_bidi_info, ll_reordered_levels, ll_visual_runs, ll_reorder_line2) and [u16] access is lossy decoding (C18). Not yet a theorem: the assembly into the paired judge C09_final; decided by C09_judge on real outputs (every UTF-16 case runs with its UTF-8 twin).")
add("C10", ["Props/C10.v", FINAL], ["C10_paragraph_independence", "c10_final"], True,
    "C10_statement (Stmts6.v) and C10_final: for every text, every paragraph of BidiInfo analysed on its own substring gives the same classes, levels and paragraph level; for a single-paragraph text ParagraphBidiInfo reports the same classes, levels and level (the line queries are then the same functions on the same arguments).")
bd16 = have("Props/CSNeutral.v")
add("C11", ["Props/ExplicitSpec.v", "Props/ExplicitInv.v", "Props/LengthIndependence.v"] + (["Props/CSNeutral.v"] if bd16 else []) + (["Props/C01.v"] if have("Props/C01.v") else []),
    ["explicit_agrees", "explicit_invariants", "C07_C08_constructors_thm"] + (["cs_neutral"] if bd16 else []) + (["c11_final"] if have("Props/C01.v") else []),
    bd16 and have("Props/C01.v"),
    "explicit_agrees / explicit_invariants (Stmts2.v), C07_C08_constructors, CS_neutral, C11_final: explicit levels never exceed 125 and equal X1-X8 with the overflow counters at any depth, resolved levels never exceed 126, bracket pairing = BD16 with the 63-entry limit, and on inputs that reach the limits the levels are the specification's.",
    "Proved for all inputs: explicit levels <= 125 and = X1-X8 incl. overflow-isolate / overflow-embedding / valid-isolate bookkeeping at any nesting depth (explicit_agrees, explicit_invariants); resolved levels <= 126 for every text of every encoding (C07_C08_constructors_thm)"
    + ("; identify_bracket_pairs = BD16 with the 63 limit as part of cs_neutral" if bd16 else "") + ". Not yet theorems: "
    + ("" if bd16 else "identify_bracket_pairs = BD16 with the 63 limit; ") + "the levels of deep inputs beyond these clauses are C01 (C11_final follows from C01_final); decided by C11_judge on inputs that reach the limits.")
add("C12", ["Props/C12.v", "Props/LengthIndependence.v"] + (["Props/C01.v"] if have("Props/C01.v") else []),
    ["C12_data_source_extensional", "li_bidi_info", "li_para_bidi_info"] + (["c01_final"] if have("Props/C01.v") else []), have("Props/C01.v"),
    "C12_statement (Stmts2.v), length independence, C01_final with the data source universally quantified.",
    "Proved: every constructor and query consults the data source only through its two answers and the convenience constructors are the explicit built-in source (C12_data_source_extensional); results do not depend on how many code units a character occupies (li_bidi_info, li_para_bidi_info: expansion of the character-level analysis); every stage theorem of C01 is for an arbitrary data source. Not yet a theorem: C01_final itself (same open stages); decided by C01/C02 judges under adversarial data sources (family G5), which exposed D9-D11.")
c13f = have("Props/C13.v")
add("C13", (["Props/C13.v"] if c13f else ["Props/ExplicitSpec.v"]) + ["Props/C02.v"], (["c13_explicit"] if c13f else ["explicit_agrees"]) + ["C02_paragraphs_levels_fsi"], False,
    "C13_explicit / C13_full (Stmts7.v), statements about Spec.v for two texts differing inside a matched valid isolate.",
    ("Proved (about the specification, for all texts): the paragraph level and the X1-X8 levels and classes of every character outside the pair are unchanged (c13_explicit); " if c13f else "Proved: the model's explicit stage equals X1-X8 (explicit_agrees) and paragraph levels equal P2/P3 which skips isolates (C02); ")
    + "not yet a theorem: the W/N stages on the outer sequences (C13_full) and its transfer to the model through C01; decided by the relational judge C13_judge on pairs of texts (family ISO, half of them with a bracket pair around the isolate).")
add("C14", ["Props/C14.v", "Props/C14Ref.v"], ["C14_table_structure", "C14_class_is_ucd16"], True,
    "C14_structure_statement (Stmts.v) and C14_reference_statement (Stmts6.v): on every sorted disjoint table the halving search = first-match lookup with default L; the regenerated table is sorted, disjoint, scalar-only; the format characters have their classes; version 16.0.0; and for EVERY code point (all of N) the built-in lookup equals the committed UCD 16.0 reference (UcdRef.v; provenance of the reference: DESIGN 5/C14).")
add("C15", ["Props/C15.v", "Props/C14Ref.v"], ["C15_bracket_table", "C15_brackets_are_ucd16"], True,
    "C15_structure_statement (Stmts.v) and C15_reference_statement (Stmts6.v): no character twice, lookup = membership with open/close flag and shared key, distinct pairs distinct keys except the canonical equivalents, every bracket has class ON; and for EVERY code point the built-in bracket lookup equals the committed reference (128 characters).")
add("C16", ["Props/C16.v", FINAL], ["C16_base_direction", "c16_final"], True,
    "C16_statement (Stmts.v) and C16_final: get_base_direction = P2/P3 direction of the first paragraph (Mixed if none), the full variant = that of the first paragraph having one, and whenever Ltr/Rtl it is the auto-detected level of that paragraph in BidiInfo; every encoding and data source.")
add("C17", ["Props/C17.v", FINAL], ["C17_summary_queries", "c17_final"], True,
    "C17_statement (Stmts.v) and C17_final: direction is Ltr/Rtl iff all levels even/odd, level_at = stored level, BidiInfo::has_rtl iff some odd level, ParagraphBidiInfo::has_rtl = false implies all stored levels even and every line reorders to itself.")
add("C18", ["Props/C18.v"], ["C18_utf16_text_access", "C18_utf8_text_access"], True,
    "C18_statement / C18_utf8_statement (Stmts.v): for every list of 16-bit units, char_at = the lossy decoding's character at a boundary and None elsewhere; the three forward iterators enumerate the decoding; lengths sum to the text length; reverse iteration is the reversed decoding; EVERY program of next/next_back calls behaves as an ideal deque of the decoded characters. UTF-8: Utf8IndexLenIter and char_at against the scalar list.")
add("C19", ["Props/C19.v"], ["C19_level_invariants"], True,
    "C19_statement (Props/C19.v): every Level operation of the model characterised for all natural arguments; tie: the whole u8 domain through the real methods in debug and release builds.")
json.dump(I, open(os.path.join(P, "index.json"), "w"), indent=1)
print({k: v["full"] for k, v in sorted(I.items())})
