#!/usr/bin/env python3
"""Writes coq/Props/index.json: for each property, the Props files and theorem names whose build and
Print Assumptions the check verifies, whether the property's FULL statement is closed, and the text
that goes into MANIFEST.json / the evidence.  Edit the table below when a theorem closes; then run
tools/mk_manifest.py."""
import json, os
ROOT = os.path.dirname(os.path.dirname(os.path.abspath(__file__)))
P = os.path.join(ROOT, "coq", "Props")
def have(f): return os.path.exists(os.path.join(ROOT, "coq", f))

FINAL = "Props/Finals.v"
I = {}
def add(pid, files, theorems, full, statement, note=""):
    files = [f for f in files if have(f)]
    I[pid] = {"file": files[0], "extra_files": files[1:], "theorems": theorems, "full": full,
              "statement": statement, "partial_note": note}

c01_files = ["Props/C01.v", "Props/ExplicitSpec.v", "Props/ExplicitInv.v", "Props/CSRuns.v", "Props/CSSequencesFast.v", "Props/CSSequences.v",
             "Props/CSWeak.v", "Props/CSNeutral.v", "Props/CSLevels.v", "Props/CSFlags.v", "Props/CSShortcut.v", "Props/CSAssemble.v",
             "Props/LengthIndependence.v"]
c01_th = ["c01_final", "c01_char", "cs_para", "explicit_agrees", "explicit_invariants", "cs_runs", "cs_sequences_fast", "cs_sequences", "cs_weak",
          "cs_neutral", "cs_levels", "cs_flags", "cs_shortcut", "cs_para_assembly_mixed", "c01_char_assembly", "c01_final_assembly",
          "li_bidi_info", "li_para_bidi_info"]
add("C01", c01_files, c01_th, all(have(f) for f in c01_files),
    "C01_final (Stmts5.v): for every valid case (valid UTF-8 or any list of 16-bit units, any data source with the FSI proviso, direction auto/LTR/RTL) the judge C01_judge holds on the model's observation: the level at every character X9 keeps equals Spec.v's resolve_paragraph (UAX #9 P2/P3, X1-X8, X9, BD7, BD13, X10, W1-W7, BD16, N0-N2, I1-I2), X9-removed characters carry the preceding level or the paragraph level; both analysis types. Assembled from the stage theorems at character level (explicit_agrees, cs_runs, cs_sequences, cs_weak, cs_neutral, cs_levels, cs_shortcut, cs_flags) and lifted to every encoding by length independence.")
add("C02", ["Props/C02.v", "Props/TextView.v", FINAL], ["C02_paragraphs_levels_fsi", "view_of_ok", "c02_final"], True,
    "C02_statement (Stmts2.v) and C02_final (Stmts5.v): for every encoding, data source, text and direction compute_initial_info never panics, classes = per-unit expansion of the classes with FSI resolved per X5c, paragraphs = the P1 split with levels per P2/P3 (FSI-class characters as long as U+2068: the data-source proviso); and the extracted judge C02_judge holds on the model's observation of every valid case (InitialInfo, BidiInfo, and ParagraphBidiInfo on single-paragraph text).")
add("C03", ["Props/C03.v", "Props/CLLevels.v", "Props/LLLevels.v", FINAL], ["C03_reorder_levels_is_L1", "cl_reordered_levels", "ll_reordered_levels", "c03_final"], True,
    "C03_final (Stmts5.v) with CL_reordered_levels / LL_reordered_levels: for every valid case and every line of whole characters, reordered_levels returns the stored levels with the line's slice replaced by rule L1 (Spec.l1) expanded to code units, everything outside the line unchanged, and reordered_levels_per_char is that vector at character starts; both analysis types, both encodings.")
add("C04", ["Props/C04.v", FINAL], ["C04_reorder_visual", "c04_final"], True,
    "C04_statement (Stmts.v): for every level vector with entries <= 126, reorder_visual returns Ok out with length out = length lv, Permutation out (seq 0 n), out = Spec.l2 lv, and out = seq 0 n when no level is odd; C04_final: the judge holds on every line of every valid case.")
add("C05", ["Props/C05.v", "Props/LLRuns.v", FINAL], ["C05_visual_runs", "ll_visual_runs", "c05_final"], True,
    "C05_statement (Stmts.v) and C05_final: for every level vector (<= 126) and line a < b <= length, visual_runs returns the levels unchanged and runs that tile the line, are single-level and maximal, whose visual unit order equals Spec.l2 of the line's levels, and deprecated::visual_runs returns the same runs; on every valid case the levels fed in are the L1 levels (C03).")
add("C06", ["Props/CLReorderLine.v", "Props/LLReorderLine.v", FINAL], ["cl_reorder_line", "ll_reorder_line2", "ll_reorder_line", "c06_final"], True,
    "CL_reorder_line (Stmts5.v), LL_reorder_line2 (Stmts6.v), C06_final: for every valid case and line, reorder_line returns exactly the line's characters permuted by L2 of the per-character L1 levels (the line itself when no level is odd after L1); in any encoding the result decodes to the character-level result and, for well-formed text, is exactly its encoding.")
add("C07", ["Props/LengthIndependence.v", "Props/Totality.v", FINAL, "Props/C18.v", "Props/C19.v"], ["C07_C08_constructors_thm", "constructors_total_char", "c07_final", "C18_utf16_text_access", "C19_level_invariants"], True,
    "C07_final (Stmts5.v): for every valid case (valid UTF-8 or ANY list of 16-bit units, any data source with the FSI proviso, direction auto/0/1, lines of whole characters) every field of the model's observation is Ok: constructors, has_rtl, direction, level_at, reordered_levels(_per_char), visual_runs, deprecated::visual_runs, reorder_line, reorder_visual, get_base_direction(_full), and BidiInfo of every paragraph's substring. The model represents every Rust panic site (index, slice, unwrap/expect, assert) as a Panic value.")
add("C08", ["Props/LengthIndependence.v", FINAL], ["C07_C08_constructors_thm", "li_bidi_info", "li_para_bidi_info", "c08_final"], True,
    "C07_C08_constructors (Stmts4.v) and C08_final: class and level vectors have one entry per code unit, all units of a character carry the same class and level (stored analysis and line levels), paragraph level <= level <= 126, the per-character vector has one entry per character — because the analysis in any encoding is the per-unit expansion of the character-level analysis (length independence).")
add("C09", ["Props/C09.v", "Props/LengthIndependence.v", "Props/C18.v", "Props/LLLevels.v", "Props/LLRuns.v", "Props/LLReorderLine.v"],
    ["c09_final", "li_bidi_info", "li_para_bidi_info", "C18_utf16_text_access", "ll_reordered_levels", "ll_visual_runs", "ll_reorder_line2"], True,
    "C09_final (Stmts5.v): for a UTF-16 case and the UTF-8 case of the same characters (lone surrogates read as U+FFFD) the paired judge C09_judge holds on the model's observations: same classes, levels, paragraphs, summary queries, line levels, runs, base direction character for character, and the reordered line decodes to the UTF-8 result (exactly its UTF-16 encoding for well-formed text). Both analyses are per-unit expansions of ONE character-level analysis; [u16] access is lossy decoding (C18).")
add("C10", ["Props/C10.v", FINAL], ["C10_paragraph_independence", "c10_final"], True,
    "C10_statement (Stmts6.v) and C10_final: for every text, every paragraph of BidiInfo analysed on its own substring gives the same classes, levels and paragraph level; for a single-paragraph text ParagraphBidiInfo reports the same classes, levels and level (the line queries are then the same functions on the same arguments).")
add("C11", ["Props/C01.v", "Props/ExplicitSpec.v", "Props/ExplicitInv.v", "Props/LengthIndependence.v", "Props/CSNeutral.v"],
    ["c11_final", "explicit_agrees", "explicit_invariants", "C07_C08_constructors_thm", "cs_neutral"], True,
    "explicit_agrees / explicit_invariants (Stmts2.v), C07_C08_constructors (Stmts4.v), CS_neutral (Stmts6.v; its BD16 part bd16_sim: identify_bracket_pairs = Spec.bracket_pairs with the 63-entry limit taken from the regenerated constant), C11_final (Stmts5.v): explicit levels never exceed 125 and equal X1-X8 with the overflow-isolate / overflow-embedding / valid-isolate counters at any nesting depth, resolved levels never exceed 126, bracket pairing stops for the rest of the sequence at 63 pending openers, and on inputs that reach the limits the levels are the specification's (C01).")
add("C12", ["Props/C12.v", "Props/C01.v", "Props/LengthIndependence.v", "Props/Finals.v"],
    ["C12_data_source_extensional", "c01_final", "c02_final", "li_bidi_info", "li_para_bidi_info"], True,
    "C12_statement (Stmts2.v), C01_final and C02_final with the data source a universally quantified field of the case, length independence: every constructor and query consults the data source only through its two answers; the levels and paragraphs are what UAX #9 yields for the classes and bracket values the source returns (proviso: FSI-class characters as long as U+2068), whatever the characters' real properties and however many code units they occupy; the convenience constructors are the explicit built-in source.")
c13f = have("Props/C13Final.v")
add("C13", (["Props/C13Final.v"] if c13f else []) + ["Props/C13.v", "Props/C01.v"], (["c13_final"] if c13f else []) + ["c13_full", "c13_explicit", "c01_final"], c13f,
    "C13_full / C13_explicit (Stmts7.v; theorems about Spec.v: replacing the content of a matched valid LRI/RLI..PDI pair by other B-free isolate-balanced content leaves the paragraph level and the resolved level of every character outside the pair unchanged), C01_final (the model's levels are the specification's), C13_final (the relational judge holds on the model's observations of every such pair of cases).",
    "Proved: C13 for the specification in full (c13_full, c13_explicit) and the model's levels equal the specification's (c01_final). Not yet a theorem: the bookkeeping that transfers the two to the judge on code-unit vectors (C13_final); decided by the relational judge C13_judge on pairs of texts (family ISO, half with a bracket pair around the isolate).")
add("C14", ["Props/C14.v", "Props/C14Ref.v"], ["C14_table_structure", "C14_class_is_ucd16"], True,
    "C14_structure_statement (Stmts.v) and C14_reference_statement (Stmts6.v): on every sorted disjoint table the halving search = first-match lookup with default L; the regenerated table is sorted, disjoint, scalar-only; the format characters have their classes; version 16.0.0; and for EVERY code point (all of N) the built-in lookup equals the committed UCD 16.0 reference (UcdRef.v; provenance of the reference: DESIGN 5/C14).")
add("C15", ["Props/C15.v", "Props/C14Ref.v"], ["C15_bracket_table", "C15_brackets_are_ucd16"], True,
    "C15_structure_statement (Stmts.v) and C15_reference_statement (Stmts6.v): no character twice, lookup = membership with open/close flag and shared key, distinct pairs distinct keys except the canonical equivalents, every bracket has class ON; and for EVERY code point the built-in bracket lookup equals the committed reference (128 characters).")
add("C16", ["Props/C16.v", FINAL], ["C16_base_direction", "c16_final"], True,
    "C16_statement (Stmts.v) and C16_final: get_base_direction = P2/P3 direction of the first paragraph (Mixed if none), the full variant = that of the first paragraph having one, and whenever Ltr/Rtl it is the auto-detected level of that paragraph in BidiInfo; every encoding and data source.")
add("C17", ["Props/C17.v", FINAL], ["C17_summary_queries", "c17_final"], True,
    "C17_statement (Stmts.v) and C17_final: direction is Ltr/Rtl iff all levels even/odd, level_at = stored level, BidiInfo::has_rtl iff some odd level, ParagraphBidiInfo::has_rtl = false implies all stored levels even and every line reorders to itself.")
add("C18", ["Props/C18.v"], ["C18_utf16_text_access", "C18_utf8_text_access"], True,
    "C18_statement / C18_utf8_statement (Stmts.v): for every list of 16-bit units, char_at = the lossy decoding's character at a boundary and None elsewhere; the three forward iterators enumerate the decoding; lengths sum to the text length; reverse iteration is the reversed decoding; EVERY program of next/next_back calls behaves as an ideal deque of the decoded characters. UTF-8: Utf8IndexLenIter and char_at against the scalar list.")
add("C19", ["Props/C19.v"], ["C19_level_invariants"], True,
    "C19_statement (Props/C19.v): every Level operation of the model characterised for all natural arguments; tie: the whole u8 domain through the real methods in debug and release builds.")
json.dump(I, open(os.path.join(P, "index.json"), "w"), indent=1)
print({k: v["full"] for k, v in sorted(I.items())})
