import sys, re, json
tpl, report, out = sys.argv[1:4]
rep = json.load(open(report))
have = set(r for r, _ in rep["translated"])
src = open(tpl).read()
kept, dropped = [], []
def sub(m):
    needs = m.group(1).split()
    if all(n in have for n in needs):
        kept.append(needs); return m.group(2)
    dropped.append(needs); return "(* block dropped: not translated: %s *)\n" % " ".join(n for n in needs if n not in have)
res = re.sub(r"\(\*@ needs ([^*]*?)\*\)\n(.*?)\(\*@ end \*\)\n", sub, src, flags=re.S)
open(out, "w").write(res)
print("kept %d blocks, dropped %d" % (len(kept), len(dropped)))
