#!/bin/sh
# tools/try_mutant.sh <id> : confirm a seeded change (in /tmp/mut/<id>, outputs in /tmp/mut/<id>.out) and run every
# quick check against it.  The change is applied to /repo only for the duration of the checks.
set -u
id=$1; wt=/tmp/mut/$id; out=/tmp/mut/$id.out
[ -f "$out/patch.diff" ] || { echo "no patch for $id"; exit 2; }
export CARGO_NET_OFFLINE=true
cd "$wt" || exit 2
git checkout -q -- src 2>/dev/null; git stash list >/dev/null
cp "$out/demo.rs" tests/demo.rs
base_demo=$(cargo test --offline --test demo 2>&1 | grep -E "^test result" | head -1)
git apply "$out/patch.diff" || { echo "patch does not apply in worktree"; exit 2; }
mut_suite=$(mv tests/demo.rs /tmp/demo_$id.rs; cargo test --offline 2>&1 | grep -E "^test result" | tr '\n' ' '; mv /tmp/demo_$id.rs tests/demo.rs)
mut_demo=$(cargo test --offline --test demo 2>&1 | grep -E "^test result" | head -1)
echo "CONFIRM $id: demo on unchanged: [$base_demo]"
echo "CONFIRM $id: suite with change:  [$mut_suite]"
echo "CONFIRM $id: demo with change:   [$mut_demo]"
cd /verif
git -C /repo apply "$out/patch.diff" || { echo "patch does not apply in /repo"; exit 2; }
caught=""
for p in C01 C02 C03 C04 C05 C06 C07 C08 C09 C10 C11 C12 C13 C14 C15 C16 C17 C18 C19 C20; do
  r=$(./check $p 2>/dev/null | grep -E "^VIOLATION" | head -1)
  if [ -n "$r" ]; then caught="$caught $p"; echo "  $r"; fi
done
git -C /repo checkout -- .
echo "RESULT $id: caught by:$caught"
